/* C02 - arbitrary network input: memory safety, termination, handler isolation (DESIGN 4.2).
 * The obligations decided here are mostly CBMC's built-in ones (bounds, pointer validity, use-after-free, overflow,
 * shifts, unwinding assertions = termination within the bound) on exact-size input objects. */
#include "coap3/coap_libcoap_build.h"
#include "common/verif.h"
#include "ref/ref_codec.h"
#include <stdlib.h>

#ifndef PROTO
#define PROTO 1
#endif
#if PROTO == 1 || PROTO == 2
#define RPROTO REF_UDP
#elif PROTO == 3 || PROTO == 4
#define RPROTO REF_TCP
#else
#define RPROTO REF_WS
#endif
#ifndef N
#define N 4
#endif
#ifndef SFORM
#define SFORM 1152
#endif

static uint8_t *
exact_input(const uint8_t *src, size_t n) {
  uint8_t *p = malloc(n ? n : 1);
  __CPROVER_assume(p != NULL);
  if (n) memcpy(p, src, n);
  return p;
}

/* post-state representation invariant of a PDU that was accepted */
static void
pdu_invariant(const coap_pdu_t *pdu) {
  VERIF_ASSERT(pdu->used_size <= pdu->alloc_size, "inv: used_size <= alloc_size");
  VERIF_ASSERT(pdu->e_token_length <= pdu->used_size, "inv: token inside the message");
  VERIF_ASSERT(pdu->data == NULL || (pdu->data > pdu->token + pdu->e_token_length && pdu->data < pdu->token + pdu->used_size),
               "inv: payload pointer inside the message, after the marker");
  VERIF_ASSERT(pdu->actual_token.length + (pdu->actual_token.s - pdu->token) == pdu->e_token_length, "inv: token view consistent");
}

/* ---- 1/2: coap_pdu_parse on every N-byte string, PDU allocated as the receive paths do -------------------- */
VERIF_HARNESS(c02_parse) {
#if N > 0
  VERIF_IN_BUF(msg_in, N);
#else
  uint8_t msg_in[1] = {0};
#endif
  uint8_t *msg = exact_input(msg_in, N);
  coap_pdu_t *pdu = coap_pdu_init(0, 0, 0, SFORM);
  VERIF_ASSERT(pdu != NULL, "pdu allocated");
  int r = coap_pdu_parse(PROTO, msg, N, pdu);
  if (r) {
    pdu_invariant(pdu);
#ifdef ACCESSORS
    {
      /* everything an application or the dispatcher may call on an accepted message */
      coap_opt_iterator_t oi;
      coap_opt_t *o;
      coap_opt_filter_t f;
      VERIF_IN(uint16_t, fnum);
      size_t dl; const uint8_t *dp;
      coap_block_t blk;
      coap_option_iterator_init(pdu, &oi, COAP_OPT_ALL);
      while ((o = coap_option_next(&oi))) {
        uint32_t l = coap_opt_length(o);
        const uint8_t *v = coap_opt_value(o);
        VERIF_ASSERT(v >= pdu->token && v + l <= pdu->token + pdu->used_size, "accessor: option value inside the message");
        (void)coap_decode_var_bytes(v, l > 4 ? 4 : l);
        (void)coap_opt_size(o);
      }
      coap_option_filter_clear(&f);
      coap_option_filter_set(&f, fnum);
      coap_option_iterator_init(pdu, &oi, &f);
      while ((o = coap_option_next(&oi))) VERIF_ASSERT(oi.number == fnum, "accessor: filtered iteration delivers only the wanted number");
      (void)coap_check_option(pdu, COAP_OPTION_OBSERVE, &oi);
      (void)coap_get_block(pdu, COAP_OPTION_BLOCK1, &blk);
      (void)coap_get_block(pdu, COAP_OPTION_BLOCK2, &blk);
      if (coap_get_data(pdu, &dl, &dp)) VERIF_ASSERT(dp + dl == pdu->token + pdu->used_size && dl > 0, "accessor: payload view");
    }
#endif
  }
  coap_delete_pdu(pdu);
  free(msg);
  VERIF_REACH("c02_parse end");
}

/* ---- 4: leaf - coap_opt_parse / coap_opt_length / coap_opt_value on an exact-size option of N bytes ------- */
VERIF_HARNESS(c02_opt_leaf) {
#if N > 0
  VERIF_IN_BUF(in, N);
#else
  uint8_t in[1] = {0};
#endif
  uint8_t *b = exact_input(in, N);
  coap_option_t res;
  size_t r = coap_opt_parse(b, N, &res);
  if (r) {
    VERIF_ASSERT(r <= N, "leaf: option size within the buffer");
    VERIF_ASSERT(res.value + res.length <= b + N, "leaf: option value within the buffer");
    VERIF_ASSERT(coap_opt_length(b) == res.length && coap_opt_value(b) == res.value, "leaf: accessors agree with the parser");
  }
  free(b);
  VERIF_REACH("c02_opt_leaf end");
}

/* ---- 7: coap_handle_dgram: dispatch reached iff well-formed; at most one RST otherwise; no handler -------- */
int h_dispatch_calls, h_send_calls, h_event_calls;
coap_pdu_type_t h_sent_type;
uint8_t h_sent_code;

void
coap_dispatch(coap_context_t *context, coap_session_t *session, coap_pdu_t *pdu) {
  (void)context; (void)session;
  h_dispatch_calls++;
  pdu_invariant(pdu);
}
coap_mid_t
coap_send_internal(coap_session_t *session, coap_pdu_t *pdu) {
  (void)session;
  h_send_calls++;
  h_sent_type = pdu->type;
  h_sent_code = pdu->code;
  coap_delete_pdu(pdu);
  return 1;
}
static int
h_event(coap_session_t *session, const coap_event_t event) {
  (void)session;
  if (event == COAP_EVENT_BAD_PACKET) h_event_calls++;
  return 0;
}

VERIF_HARNESS(c02_dgram) {
#if N > 0
  VERIF_IN_BUF(msg_in, N);
#else
  uint8_t msg_in[1] = {0};
#endif
  uint8_t *msg = exact_input(msg_in, N);
  static coap_context_t ctx;
  static coap_session_t sess;
  memset(&ctx, 0, sizeof(ctx));
  memset(&sess, 0, sizeof(sess));
  ctx.handle_event = h_event;
  sess.context = &ctx;
  sess.proto = COAP_PROTO_UDP;
  sess.type = COAP_SESSION_TYPE_SERVER;
  sess.mtu = 1152;
  sess.state = COAP_SESSION_STATE_ESTABLISHED;
  h_dispatch_calls = h_send_calls = h_event_calls = 0;
  int r = coap_handle_dgram(&ctx, &sess, msg, N);
  static ref_msg_t m;
  int ref_ok = ref_decode(REF_UDP, msg, N, &m);
  VERIF_ASSERT(h_dispatch_calls == (ref_ok ? 1 : 0), "dgram: protocol layer entered exactly once for a well-formed datagram and never for a malformed one");
  VERIF_ASSERT((r == 0) == (ref_ok != 0), "dgram: return value reports malformed input");
  if (!ref_ok) {
    VERIF_ASSERT(h_send_calls <= 1, "dgram: at most one reply to malformed input");
    if (h_send_calls) VERIF_ASSERT(h_sent_type == COAP_MESSAGE_RST && h_sent_code == 0, "dgram: the only reply to malformed input is an empty Reset");
  } else {
    VERIF_ASSERT(h_send_calls == 0, "dgram: nothing sent by the datagram layer itself for well-formed input");
  }
  free(msg);
#ifdef WITNESS
#if N >= 5
  if (ref_ok && m.nopts) VERIF_REACH("dgram accepted with option");
#elif N == 4
  if (ref_ok) VERIF_REACH("dgram accepted");
#else
  VERIF_REACH("dgram end");
#endif
#endif
}
