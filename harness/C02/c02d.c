/* C02 - the debug-level pretty printer: coap_show_pdu() of coap_debug.c walks every received PDU again when the log level is
 * DEBUG ("with logging at every level"). Real coap_debug.c is linked; what is decided is the INPUT side: every byte the
 * printer reads lies inside the received message (exact-size PDU object), loops terminate, no undefined behaviour.
 * The OUTPUT side is not modelled: snprintf() is a stub that honours its ISO C contract (writes at most `size` bytes, here: the
 * empty string) and returns an arbitrary non-negative count, so formatted lengths are not tracked; print_readable() is real. */
#include "coap3/coap_libcoap_build.h"
#include "common/verif.h"
#include <stdlib.h>
#include <stdio.h>

#ifndef VERIF_REPLAY
int nondet_snprintf_ret(void);
int
snprintf(char *s, size_t n, const char *fmt, ...) {
  int r = nondet_snprintf_ret();
  (void)fmt;
  if (n) s[0] = 0;
  __CPROVER_assume(r >= 0 && r < 4096);
  return r;
}
int
fprintf(FILE *f, const char *fmt, ...) {
  (void)f; (void)fmt;
  return 0;
}
#endif

#ifndef N
#define N 6
#endif
#ifndef OPTNUM
#define OPTNUM -1       /* -1: all N message bytes symbolic; otherwise a concrete-layout message carrying option OPTNUM of OPTLEN symbolic bytes */
#endif
#ifndef OPTLEN
#define OPTLEN 2
#endif
#ifndef PAYLOAD
#define PAYLOAD 0
#endif
#ifndef CODE
#define CODE 1
#endif

VERIF_HARNESS(c02_show_pdu) {
#if OPTNUM < 0
  VERIF_IN_BUF(msg, N);
  size_t n = N;
#else
  VERIF_IN_BUF(val, OPTLEN + 1);
  VERIF_IN_BUF(pl, 2);
  VERIF_IN(uint8_t, tkb);
  static uint8_t msg[4 + 1 + 3 + 2 + OPTLEN + 1 + 2];
  size_t n = 0, i;
  msg[n++] = 0x41; msg[n++] = CODE; msg[n++] = 0x12; msg[n++] = 0x34;
  msg[n++] = tkb;
  /* option header: delta OPTNUM, length OPTLEN */
  {
    uint8_t d = OPTNUM < 13 ? OPTNUM : OPTNUM < 269 ? 13 : 14;
    uint8_t l = OPTLEN < 13 ? OPTLEN : 13;
    msg[n++] = (uint8_t)(d << 4 | l);
    if (d == 13) msg[n++] = (uint8_t)(OPTNUM - 13);
    if (d == 14) { msg[n++] = (uint8_t)((OPTNUM - 269) >> 8); msg[n++] = (uint8_t)(OPTNUM - 269); }
    if (l == 13) msg[n++] = (uint8_t)(OPTLEN - 13);
  }
  for (i = 0; i < OPTLEN; i++) msg[n++] = val[i];
#if PAYLOAD
  msg[n++] = 0xff;
  for (i = 0; i < PAYLOAD; i++) msg[n++] = pl[i];
#endif
#endif
  /* the persist-loader form coap_pdu_init(0,0,0,0): coap_pdu_parse resizes the PDU to exactly the message size, so the PDU
   * object ends with the last received byte and any read behind the message is an out-of-bounds access */
  coap_pdu_t *pdu = coap_pdu_init(0, 0, 0, 0);
  VERIF_ASSERT(pdu != NULL, "pdu allocated");
  int r = coap_pdu_parse(COAP_PROTO_UDP, msg, n, pdu);
#if OPTNUM >= 0
  VERIF_ASSUME(r);
#endif
  if (r) {
    coap_show_pdu(COAP_LOG_DEBUG, pdu);
    VERIF_REACH("show_pdu ran on an accepted message");
  }
  coap_delete_pdu(pdu);
}
