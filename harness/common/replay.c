/* replay.c - native replay support: input file reader and entry dispatcher (only built with -DVERIF_REPLAY) */
#include <stdio.h>
#include <stdlib.h>
#include <string.h>
#include <stdint.h>

#define MAXREG 256
static struct { const char *name; void (*fn)(void); } reg[MAXREG];
static int nreg;
void verif_register(const char *name, void (*fn)(void)) { if (nreg < MAXREG) { reg[nreg].name = name; reg[nreg].fn = fn; nreg++; } }

#define MAXIN 4096
static struct { char *name; unsigned char *data; size_t len; int used; } ins[MAXIN];
static int nins, loaded;

static void load_file(void) {
  const char *p = getenv("VERIF_REPLAY_FILE");
  loaded = 1;
  if (!p) return;
  FILE *f = fopen(p, "r");
  if (!f) return;
  static char line[1 << 20];
  while (fgets(line, sizeof line, f) && nins < MAXIN) {
    char *sp = strchr(line, ' ');
    if (!sp) continue;
    *sp++ = 0;
    size_t hl = strcspn(sp, "\r\n");
    sp[hl] = 0;
    ins[nins].name = strdup(line);
    if (sp[0] == '-') hl = 0;
    ins[nins].len = hl / 2;
    ins[nins].data = malloc(hl / 2 + 1);
    for (size_t i = 0; i < hl / 2; i++) { unsigned v; sscanf(sp + 2 * i, "%2x", &v); ins[nins].data[i] = (unsigned char)v; }
    nins++;
  }
  fclose(f);
}

/* pops the next recorded value for name; missing values replay as zero bytes */
void verif_replay_load(const char *name, void *dst, size_t n) {
  if (!loaded) load_file();
  memset(dst, 0, n);
  for (int i = 0; i < nins; i++) {
    if (!ins[i].used && strcmp(ins[i].name, name) == 0) {
      ins[i].used = 1;
      memcpy(dst, ins[i].data, ins[i].len < n ? ins[i].len : n);
      return;
    }
  }
}

int main(int argc, char **argv) {
  const char *want = argc > 1 ? argv[1] : getenv("VERIF_ENTRY");
  for (int i = 0; i < nreg; i++)
    if (want && strcmp(reg[i].name, want) == 0) { reg[i].fn(); fprintf(stderr, "REPLAY: %s completed without failure\n", want); return 0; }
  fprintf(stderr, "REPLAY: entry %s not found\n", want ? want : "(null)");
  return 78;
}
