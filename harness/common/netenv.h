/* netenv.h - shared environment for the protocol-layer harnesses (C06, C07, C08, C10, C11, C12, C19):
 * a UDP session on a context, a recording l_write, recording nack/response/event handlers, debug-print stubs.
 * Included once per harness translation unit. */
#ifndef NETENV_H
#define NETENV_H
#include "coap3/coap_libcoap_build.h"
#include "common/verif.h"
#include <stdlib.h>

extern coap_tick_t env_now;

/* ---- global lock: the CMake build defines COAP_THREAD_SAFE=1, so the protocol layer runs with the lock held ------- */
#include <pthread.h>
int ne_mutex_owner;              /* 0 free, 1 this (only) thread */
int ne_selfdeadlock, ne_bad_unlock;
pthread_t pthread_self(void) { return (pthread_t)1; }
int pthread_mutex_init(pthread_mutex_t *m, const pthread_mutexattr_t *a) { (void)m; (void)a; ne_mutex_owner = 0; return 0; }
int pthread_mutex_lock(pthread_mutex_t *m) { (void)m; if (ne_mutex_owner) ne_selfdeadlock = 1; ne_mutex_owner = 1; return 0; }
int pthread_mutex_unlock(pthread_mutex_t *m) { (void)m; if (!ne_mutex_owner) ne_bad_unlock = 1; ne_mutex_owner = 0; return 0; }
extern int coap_started;
#if COAP_THREAD_SAFE
#define NE_IN_CALLBACK (global_lock.in_callback)
#else
#define NE_IN_CALLBACK 1
#endif
/* C13: every application callback must be entered either with the lock released or inside a coap_lock_callback*
 * section, otherwise a public API call made by the callback blocks on the non-recursive mutex */
#ifdef C13_CALLBACK_CHECK
#define NE_CALLBACK_ENTRY(name) VERIF_ASSERT(!coap_threadsafe_is_supported() || ne_mutex_owner == 0 || NE_IN_CALLBACK > 0, \
    "C13 " name " is entered through a coap_lock_callback section (it may re-enter the public API)")
#else
#define NE_CALLBACK_ENTRY(name) do { } while (0)
#endif

/* ---- transmissions --------------------------------------------------------------------------------------- */
#define NE_MAXTX 6
static int ne_tx_count;
static const uint8_t *ne_tx_ptr[NE_MAXTX];
static size_t ne_tx_len[NE_MAXTX];
#define NE_TXKEEP 16
static uint8_t ne_tx_first[NE_MAXTX][NE_TXKEEP];   /* first bytes (UDP header, token, ...) as written; the PDU may be freed after the write */
static coap_session_t *ne_tx_sess[NE_MAXTX];
static ssize_t ne_write_result = 0;        /* 0: "all bytes written"; <0: error */

static ssize_t
ne_l_write(coap_session_t *session, const uint8_t *data, size_t datalen) {
  if (ne_tx_count < NE_MAXTX) {
    ne_tx_ptr[ne_tx_count] = data;
    ne_tx_len[ne_tx_count] = datalen;
    ne_tx_sess[ne_tx_count] = session;
    {
      /* byte loop (CBMC 6.11 mishandles memcpy into a row of a 2-D array) */
      size_t i;
      for (i = 0; i < NE_TXKEEP; i++) ne_tx_first[ne_tx_count][i] = i < datalen ? data[i] : 0;
    }
  }
  ne_tx_count++;
  return ne_write_result < 0 ? ne_write_result : (ssize_t)datalen;
}

/* ---- handlers ---------------------------------------------------------------------------------------------- */
static int ne_nack_count, ne_resp_count, ne_event_count;
static coap_nack_reason_t ne_nack_reason;
static coap_mid_t ne_nack_mid;
static const coap_pdu_t *ne_nack_pdu;
static coap_response_t ne_resp_verdict = COAP_RESPONSE_OK;
static coap_mid_t ne_resp_mid;
static uint8_t ne_resp_token[8];
static size_t ne_resp_tkl;
static const coap_pdu_t *ne_resp_sent;

static void
ne_nack_handler(coap_session_t *session, const coap_pdu_t *sent, const coap_nack_reason_t reason, const coap_mid_t mid) {
  (void)session;
  NE_CALLBACK_ENTRY("nack handler");
  ne_nack_count++;
  ne_nack_reason = reason;
  ne_nack_mid = mid;
  ne_nack_pdu = sent;
}
static coap_response_t
ne_response_handler(coap_session_t *session, const coap_pdu_t *sent, const coap_pdu_t *received, const coap_mid_t mid) {
  (void)session;
  NE_CALLBACK_ENTRY("response handler");
  ne_resp_count++;
  ne_resp_mid = mid;
  ne_resp_sent = sent;
  ne_resp_tkl = received->actual_token.length;
  if (ne_resp_tkl <= 8 && ne_resp_tkl > 0) memcpy(ne_resp_token, received->actual_token.s, ne_resp_tkl);
  return ne_resp_verdict;
}
static int ne_pong_count, ne_ping_count;
static void
ne_pong_handler(coap_session_t *session, const coap_pdu_t *received, const coap_mid_t mid) {
  (void)session; (void)received; (void)mid;
  NE_CALLBACK_ENTRY("pong handler");
  ne_pong_count++;
}
static void
ne_ping_handler(coap_session_t *session, const coap_pdu_t *received, const coap_mid_t mid) {
  (void)session; (void)received; (void)mid;
  NE_CALLBACK_ENTRY("ping handler");
  ne_ping_count++;
}
static int
ne_event_handler(coap_session_t *session, const coap_event_t event) {
  (void)session; (void)event;
  NE_CALLBACK_ENTRY("event handler");
  ne_event_count++;
  return 0;
}

/* ---- debug / address printing: not the subject anywhere but C02 ------------------------------------------------ */
void coap_show_pdu(coap_log_t level, const coap_pdu_t *pdu) { (void)level; (void)pdu; }
const char *coap_session_str(const coap_session_t *session) { (void)session; return "session"; }
const char *coap_endpoint_str(const coap_endpoint_t *ep) { (void)ep; return "endpoint"; }
size_t coap_print_addr(const coap_address_t *a, unsigned char *b, size_t l) { (void)a; (void)b; (void)l; return 0; }
const char *coap_print_ip_addr(const coap_address_t *a, char *b, size_t l) { (void)a; if (l) b[0] = 0; return b; }   /* prints the empty string */
void coap_update_io_timer(coap_context_t *context, coap_tick_t delay) { (void)context; (void)delay; }

/* ---- objects ------------------------------------------------------------------------------------------------- */
static coap_context_t ne_ctx;
static coap_session_t ne_sess, ne_sess2;

static void
ne_init_session(coap_session_t *s, coap_proto_t proto) {
  memset(s, 0, sizeof(*s));
  s->context = &ne_ctx;
  s->proto = proto;
  s->type = COAP_SESSION_TYPE_CLIENT;
  s->state = COAP_SESSION_STATE_ESTABLISHED;
  s->mtu = 1152;
  s->ref = 8;           /* held by the application: never freed inside a job */
  s->nstart = 1;
  s->max_retransmit = 4;
  s->ack_timeout = (coap_fixed_point_t){2, 0};
  s->ack_random_factor = (coap_fixed_point_t){1, 500};
  s->max_token_size = 8;
  s->block_mode = 0;
  /* further defaults of coap_make_session() */
  s->default_leisure = COAP_DEFAULT_DEFAULT_LEISURE;
  s->probing_rate = COAP_DEFAULT_PROBING_RATE;
#if COAP_Q_BLOCK_SUPPORT
  s->max_payloads = COAP_DEFAULT_MAX_PAYLOADS;
  s->non_max_retransmit = COAP_DEFAULT_NON_MAX_RETRANSMIT;
  s->non_timeout = COAP_DEFAULT_NON_TIMEOUT;
  s->non_receive_timeout = COAP_DEFAULT_NON_RECEIVE_TIMEOUT;
#endif
  s->last_ping_mid = COAP_INVALID_MID;
  s->sock.lfunc[COAP_LAYER_SESSION].l_write = ne_l_write;
  s->sock.flags = COAP_SOCKET_NOT_EMPTY | COAP_SOCKET_CONNECTED;
}

static void
ne_init(void) {
  memset(&ne_ctx, 0, sizeof(ne_ctx));
  ne_ctx.nack_handler = ne_nack_handler;
  ne_ctx.response_handler = ne_response_handler;
  ne_ctx.handle_event = ne_event_handler;
  ne_ctx.pong_handler = ne_pong_handler;
  ne_ctx.ping_handler = ne_ping_handler;
  ne_pong_count = ne_ping_count = 0;
  ne_ctx.max_token_size = 8;          /* as coap_new_context() sets it (COAP_TOKEN_DEFAULT_MAX) */
  ne_init_session(&ne_sess, COAP_PROTO_UDP);
  ne_init_session(&ne_sess2, COAP_PROTO_UDP);
  ne_tx_count = ne_nack_count = ne_resp_count = ne_event_count = 0;
  /* as inside any public API call: library started, global lock held by this thread */
  coap_started = 1;
#if COAP_THREAD_SAFE
  memset(&global_lock, 0, sizeof(global_lock));
#endif
  ne_mutex_owner = 0;
  coap_lock_lock(&ne_ctx, return);
}

/* a Confirmable/Non-confirmable request with encoded UDP header, concrete shape, symbolic mid/token bytes */
static coap_pdu_t *
ne_make_pdu(coap_pdu_type_t type, uint8_t code, uint16_t mid, const uint8_t *tok, size_t tkl) {
  coap_pdu_t *p = coap_pdu_init(type, code, mid, 256);
  __CPROVER_assume(p != NULL);
  if (tkl) coap_add_token(p, tkl, tok);
  coap_pdu_encode_header(p, COAP_PROTO_UDP);
  return p;
}

static coap_queue_t *
ne_make_node(coap_session_t *s, coap_pdu_t *pdu, unsigned timeout, unsigned char cnt) {
  coap_queue_t *n = coap_new_node();
  __CPROVER_assume(n != NULL);
  n->session = s;
  s->ref++;
  n->pdu = pdu;
  n->id = pdu->mid;
  n->timeout = timeout;
  n->retransmit_cnt = cnt;
  return n;
}

static int
ne_in_queue(coap_queue_t *q, const coap_queue_t *n) {
  int k;
  for (k = 0; k < 5 && q; k++, q = q->next)
    if (q == n) return 1;
  return 0;
}

/* absolute deadline of node n in the context send queue (basetime + sum of relative t up to n); ~0 if absent */
static coap_tick_t
ne_deadline(const coap_queue_t *n) {
  coap_tick_t acc = ne_ctx.sendqueue_basetime;
  coap_queue_t *q = ne_ctx.sendqueue;
  int k;
  for (k = 0; k < 5 && q; k++, q = q->next) {
    acc += q->t;
    if (q == n) return acc;
  }
  return ~(coap_tick_t)0;
}
static int
ne_queue_len(coap_queue_t *q) {
  int k = 0;
  while (q && k < 6) { k++; q = q->next; }
  return k;
}
#endif
