/* pdu_model.h - abstract message model (token, ordered option list, payload) and comparison of a real coap_pdu_t
 * against it through the library's own accessors. Used by C01 and C04. */
#ifndef PDU_MODEL_H
#define PDU_MODEL_H
#include "coap3/coap_libcoap_build.h"
#include "common/verif.h"

#define MODEL_MAX_OPTS 8
typedef struct {
  uint32_t num;
  uint32_t len;
  const uint8_t *val;
} mopt_t;

typedef struct {
  unsigned n;
  mopt_t o[MODEL_MAX_OPTS];
  uint32_t tkl;
  const uint8_t *tok;
  uint32_t plen;
  const uint8_t *pl;
} model_t;

/* stable insert: after every option with number <= num (RFC 7252 5.4.5: repeated options keep insertion order) */
static inline void
model_insert(model_t *m, uint32_t num, uint32_t len, const uint8_t *val) {
  unsigned pos = 0, k;
  while (pos < m->n && m->o[pos].num <= num) pos++;
  for (k = m->n; k > pos; k--) m->o[k] = m->o[k - 1];
  m->o[pos].num = num;
  m->o[pos].len = len;
  m->o[pos].val = val;
  m->n++;
}

static inline int
model_find(const model_t *m, uint32_t num) {
  unsigned i;
  for (i = 0; i < m->n; i++)
    if (m->o[i].num == num) return (int)i;
  return -1;
}

static inline void
model_remove_at(model_t *m, unsigned pos) {
  unsigned k;
  for (k = pos; k + 1 < m->n; k++) m->o[k] = m->o[k + 1];
  m->n--;
}

/* bytes compared at one solver-chosen index: equality of every byte is decided in one query */
#define MODEL_BYTES_EQ(p, q, len, msg) do { \
    if ((len) > 0) { VERIF_IN(uint32_t, cmp_idx); VERIF_ASSUME(cmp_idx < (len)); \
      VERIF_ASSERT((p)[cmp_idx] == (q)[cmp_idx], msg); } } while (0)

static inline void
model_check_pdu(const coap_pdu_t *pdu, const model_t *m) {
  coap_opt_iterator_t oi;
  coap_opt_t *o;
  unsigned i;
  size_t dl = 0;
  const uint8_t *dp = NULL;
  VERIF_ASSERT(pdu->actual_token.length == m->tkl, "model: token length");
  MODEL_BYTES_EQ(pdu->actual_token.s, m->tok, m->tkl, "model: token bytes");
  VERIF_ASSERT(pdu->e_token_length == m->tkl + (m->tkl < 13 ? 0u : (m->tkl < 269 ? 1u : 2u)), "model: e_token_length = token + extension bytes");
  VERIF_ASSERT(pdu->used_size <= pdu->alloc_size, "model: used_size within alloc_size");
  coap_option_iterator_init(pdu, &oi, COAP_OPT_ALL);
  for (i = 0; i < m->n; i++) {
    o = coap_option_next(&oi);
    VERIF_ASSERT(o != NULL, "model: every model option is present");
    if (!o) return;
    VERIF_ASSERT(oi.number == m->o[i].num, "model: option number and position");
    VERIF_ASSERT(coap_opt_length(o) == m->o[i].len, "model: option length");
    MODEL_BYTES_EQ(coap_opt_value(o), m->o[i].val, m->o[i].len, "model: option value bytes");
  }
  o = coap_option_next(&oi);
  VERIF_ASSERT(o == NULL, "model: no option beyond the model list");
  VERIF_ASSERT(pdu->max_opt == (m->n ? m->o[m->n - 1].num : 0), "model: max_opt is the last option number");
  if (coap_get_data(pdu, &dl, &dp)) {
    VERIF_ASSERT(dl == m->plen && m->plen > 0, "model: payload length");
    MODEL_BYTES_EQ(dp, m->pl, m->plen, "model: payload bytes");
    VERIF_ASSERT(dp[-1] == 0xFF, "model: payload marker precedes payload");
    VERIF_ASSERT(dp + dl == pdu->token + pdu->used_size, "model: payload ends the message");
  } else {
    VERIF_ASSERT(m->plen == 0, "model: no payload");
  }
}
#endif
