/* env.c - environment stubs linked instead of coap_mem.c, coap_time.c, coap_prng.c, coap_debug.c.
 * Every stub is an assumption of each claim that links it (listed in the evidence):
 *   logging: coap_log_impl has an empty body; coap_get_log_level() returns an arbitrary level 0..8 chosen
 *            once per run (so both sides of every coap_log guard are explored);
 *   allocator: malloc/realloc/free; never NULL unless ENV_ALLOC_MAY_FAIL (C18);
 *   clock: coap_ticks() returns env_now, set by the harness;
 *   prng: arbitrary bytes.
 * Sections can be switched off by a harness that supplies its own: ENV_NO_LOG, ENV_NO_ALLOC, ENV_NO_CLOCK,
 * ENV_NO_PRNG.
 */
#include "coap3/coap_libcoap_build.h"
#include "common/verif.h"
#include <stdlib.h>

#ifndef ENV_NO_LOG
uint8_t env_log_level;
int env_log_level_set;
coap_log_t
coap_get_log_level(void) {
  if (!env_log_level_set) {
    VERIF_IN_SET(uint8_t, env_log_level);
    env_log_level_set = 1;
#ifdef ENV_LOG_QUIET
    env_log_level = 0;
#endif
    if (env_log_level > 8) env_log_level = 8;
  }
  return (coap_log_t)env_log_level;
}
void
coap_log_impl(coap_log_t level, const char *format, ...) {
  (void)level;
  (void)format;
}
void
coap_set_log_level(coap_log_t level) {
  (void)level;
}
#endif

#ifndef ENV_NO_ALLOC
#ifdef ENV_ALLOC_MAY_FAIL
/* C18: any subset of allocations may fail; env_alloc_fail_enabled lets a scenario switch failures off again */
int env_alloc_fail_enabled = 1;
unsigned env_alloc_calls, env_alloc_failed, env_alloc_failable;
static int
env_fail_now(void) {
  env_alloc_calls++;
  if (!env_alloc_fail_enabled) return 0;
#ifdef ENV_FAIL_SYM
  /* "fail exactly the k-th allocation" for a SYMBOLIC k <= ENV_FAIL_SYM chosen once per run (k past the last allocation = no failure) */
  {
    static uint8_t env_fail_k;
    static int env_fail_k_set;
    if (!env_fail_k_set) {
      VERIF_IN_SET(uint8_t, env_fail_k);
      __CPROVER_assume(env_fail_k <= (ENV_FAIL_SYM));
      env_fail_k_set = 1;
    }
    if (env_alloc_failable++ == env_fail_k) { env_alloc_failed++; return 1; }
    return 0;
  }
#endif
#ifdef ENV_FAIL_AT
  /* "fail exactly the k-th allocation", k concrete per job: the message layout stays concrete */
  if (env_alloc_failable++ == (ENV_FAIL_AT)) { env_alloc_failed++; return 1; }
  return 0;
#endif
  {
    _Bool env_alloc_fail;
    VERIF_IN_SET(_Bool, env_alloc_fail);
    if (env_alloc_fail) { env_alloc_failed++; return 1; }
  }
  return 0;
}
#else
#define env_fail_now() 0
#endif
#ifndef VERIF_REPLAY
/* allocation sizes, so that the realloc model below copies a concrete number of bytes */
#define ENV_ALLOC_SLOTS 24
static void *env_alloc_ptr[ENV_ALLOC_SLOTS];
static size_t env_alloc_size[ENV_ALLOC_SLOTS];
static unsigned env_alloc_n;
static void
env_alloc_note(void *p, size_t size) {
  if (env_alloc_n < ENV_ALLOC_SLOTS) {
    env_alloc_ptr[env_alloc_n] = p;
    env_alloc_size[env_alloc_n] = size;
    env_alloc_n++;
  }
}
#endif
void *
coap_malloc_type(coap_memory_tag_t type, size_t size) {
  (void)type;
  if (env_fail_now()) return NULL;
  void *p = malloc(size);
#ifndef VERIF_REPLAY
  __CPROVER_assume(p != NULL);
  env_alloc_note(p, size);
#endif
  return p;
}
void *
coap_realloc_type(coap_memory_tag_t type, void *p, size_t size) {
  (void)type;
  if (env_fail_now()) return NULL;
#if defined(VERIF_REPLAY) || !defined(ENV_REALLOC_BYTELOOP)
  {
    void *q = realloc(p, size);
#ifndef VERIF_REPLAY
    __CPROVER_assume(q != NULL);
    env_alloc_note(q, size);
#endif
    return q;
  }
#else
  /* (concrete-layout jobs only, -DENV_REALLOC_BYTELOOP) CBMC's realloc model copies with __CPROVER_array_copy, which loses byte-level (field-sensitive) knowledge of
   * the buffer; an explicit malloc + byte copy + free keeps concrete header bytes concrete */
  void *q = malloc(size);
  __CPROVER_assume(q != NULL);
  if (p) {
    size_t old = 0, n, i;
    unsigned k;
    int found = 0;
    for (k = 0; k < ENV_ALLOC_SLOTS; k++)
      if (k < env_alloc_n && env_alloc_ptr[k] == p) { old = env_alloc_size[k]; found = 1; }
    __CPROVER_assert(found, "env: realloc of a block that came from coap_malloc_type/coap_realloc_type");
    n = old < size ? old : size;
    /* byte loop with a concrete bound (unwindset coap_realloc_type.1): constant-index copies stay field-sensitive */
    for (i = 0; i < n; i++) ((uint8_t *)q)[i] = ((const uint8_t *)p)[i];
    free(p);
  }
  env_alloc_note(q, size);
  return q;
#endif
}
void
coap_free_type(coap_memory_tag_t type, void *p) {
  (void)type;
  free(p);
}
#endif

#ifndef ENV_NO_CLOCK
coap_tick_t env_now;
void
coap_ticks(coap_tick_t *t) {
  *t = env_now;
}
void
coap_clock_init(void) {
}
uint64_t
coap_ticks_to_rt_us(coap_tick_t t) {
  return (uint64_t)t * 1000000 / COAP_TICKS_PER_SECOND;
}
coap_time_t
coap_ticks_to_rt(coap_tick_t t) {
  return t / COAP_TICKS_PER_SECOND;
}
coap_tick_t
coap_ticks_from_rt_us(uint64_t t) {
  return (coap_tick_t)(t * COAP_TICKS_PER_SECOND / 1000000);
}
#endif

#ifndef ENV_NO_PRNG
int
coap_prng_lkd(void *buf, size_t len) {
  uint8_t *b = (uint8_t *)buf;
  /* at most 8 arbitrary bytes are needed by the code under test (mid, token, ack random) */
  uint64_t env_prng;
  VERIF_IN_SET(uint64_t, env_prng);
  for (size_t i = 0; i < len && i < 8; i++) b[i] = (uint8_t)(env_prng >> (8 * i));
  for (size_t i = 8; i < len; i++) b[i] = (uint8_t)i;
  return 1;
}
#endif

#ifndef VERIF_REPLAY
/* glibc's isprint()/isxdigit()/... macros index a table obtained from __ctype_b_loc(); CBMC has no body for it.
 * Model: the "C" locale table (bit layout of glibc on little-endian: _ISbit(n) = n < 8 ? 1 << (n + 8) : 1 << (n - 8)),
 * built on first use; indices -128..255 are valid as in glibc. */
static unsigned short env_ctype_tab[384];
static const unsigned short *env_ctype_ptr = env_ctype_tab + 128;
static int env_ctype_init;
const unsigned short **
__ctype_b_loc(void) {
  if (!env_ctype_init) {
    int c;
    env_ctype_init = 1;
    for (c = 0; c < 256; c++) {
      unsigned short b = 0;
      int up = c >= 'A' && c <= 'Z', lo = c >= 'a' && c <= 'z', dg = c >= '0' && c <= '9';
      int xd = dg || (c >= 'a' && c <= 'f') || (c >= 'A' && c <= 'F');
      int sp = c == ' ' || (c >= 9 && c <= 13), pr = c >= 32 && c <= 126, ct = c < 32 || c == 127;
      int gr = c > 32 && c <= 126, pu = gr && !(up || lo || dg);
      if (up) b |= 0x100;
      if (lo) b |= 0x200;
      if (up || lo) b |= 0x400;
      if (dg) b |= 0x800;
      if (xd) b |= 0x1000;
      if (sp) b |= 0x2000;
      if (pr) b |= 0x4000;
      if (gr) b |= 0x8000;
      if (c == ' ' || c == 9) b |= 0x1;
      if (ct) b |= 0x2;
      if (pu) b |= 0x4;
      if (up || lo || dg) b |= 0x8;
      env_ctype_tab[128 + c] = b;
    }
  }
  return &env_ctype_ptr;
}
#endif

#ifndef VERIF_REPLAY
/* CBMC 6.11 ships no faithful model of memchr(): plain byte loop (bounded by the job's unwind limit) */
void *
memchr(const void *s, int c, size_t n) {
  const unsigned char *p = (const unsigned char *)s;
  size_t i;
  for (i = 0; i < n; i++)
    if (p[i] == (unsigned char)c) return (void *)(p + i);
  return NULL;
}
#endif

#if !defined(VERIF_REPLAY) && defined(ENV_MEMCPY_BYTELOOP)
/* (opt-in) CBMC 6.11 loses the bytes of a memcpy whose destination is an array member of a struct that is itself an array
 * element (cose[0].partial_iv_data; same defect as the 2-D row case): plain byte loop, bounded by unwindset memcpy.0 and
 * checked by the unwinding assertion */
void *
memcpy(void *dst, const void *src, size_t n) {
  size_t i;
  for (i = 0; i < n; i++) ((unsigned char *)dst)[i] = ((const unsigned char *)src)[i];
  return dst;
}
#endif
