/* unreach.h - functions that a job's scenario can never enter (different message class, feature switched off in the
 * session) are replaced by stubs that FAIL when entered. This keeps symbolic execution out of thousands of lines it
 * would otherwise explore speculatively (symex does not prune infeasible branches); the solver still has to prove
 * that the stub is unreachable, so the cut is checked, not assumed. The real bodies are removed with
 * goto-instrument --remove-function-body in the jobs that define the corresponding macro. */
#ifndef UNREACH_H
#define UNREACH_H
#ifdef UNREACH_HANDLE_REQUEST
void __CPROVER_file_local_coap_net_c_handle_request(coap_context_t *context, coap_session_t *session, coap_pdu_t *pdu) {
  (void)context; (void)session; (void)pdu;
  __CPROVER_assert(0, "cut: request handling is unreachable in this scenario");
}
#endif
#ifdef UNREACH_HANDLE_RESPONSE
void __CPROVER_file_local_coap_net_c_handle_response(coap_context_t *context, coap_session_t *session, coap_pdu_t *sent, coap_pdu_t *rcvd) {
  (void)context; (void)session; (void)sent; (void)rcvd;
  __CPROVER_assert(0, "cut: response handling is unreachable in this scenario");
}
#endif
#ifdef UNREACH_SIGNALING
void __CPROVER_file_local_coap_net_c_handle_signaling(coap_context_t *context, coap_session_t *session, coap_pdu_t *pdu) {
  (void)context; (void)session; (void)pdu;
  __CPROVER_assert(0, "cut: signalling is unreachable in this scenario");
}
#endif
#ifdef UNREACH_LG_CRCV
coap_lg_crcv_t *coap_block_new_lg_crcv(coap_session_t *session, coap_pdu_t *pdu, coap_lg_xmit_t *lg_xmit) {
  (void)session; (void)pdu; (void)lg_xmit;
  __CPROVER_assert(0, "cut: client block-wise state is unreachable (block_mode = 0 / request shape)");
  return NULL;
}
#endif
#ifdef UNREACH_BLOCK_CLIENT
int coap_handle_response_send_block(coap_session_t *session, coap_pdu_t *sent, coap_pdu_t *rcvd) {
  (void)session; (void)sent; (void)rcvd;
  __CPROVER_assert(0, "cut: libcoap block-wise handling is unreachable (block_mode = 0)");
  return 0;
}
int coap_handle_response_get_block(coap_context_t *context, coap_session_t *session, coap_pdu_t *sent, coap_pdu_t *rcvd, coap_recurse_t recursive) {
  (void)context; (void)session; (void)sent; (void)rcvd; (void)recursive;
  __CPROVER_assert(0, "cut: libcoap block-wise handling is unreachable (block_mode = 0)");
  return 0;
}
#endif
#ifdef UNREACH_OSCORE
coap_pdu_t *coap_oscore_decrypt_pdu(coap_session_t *session, coap_pdu_t *pdu) {
  (void)session; (void)pdu;
  __CPROVER_assert(0, "cut: OSCORE is unreachable (no OSCORE option / context)");
  return NULL;
}
size_t coap_oscore_overhead(coap_session_t *session, coap_pdu_t *pdu) {
  (void)pdu;
  /* the real function returns 0 for a session without an OSCORE recipient context */
  __CPROVER_assert(session->recipient_ctx == NULL, "cut: OSCORE is unreachable (no recipient context)");
  return 0;
}
coap_pdu_t *coap_oscore_new_pdu_encrypted_lkd(coap_session_t *session, coap_pdu_t *pdu, coap_bin_const_t *kid_context, oscore_partial_iv_t send_partial_iv) {
  (void)session; (void)pdu; (void)kid_context; (void)send_partial_iv;
  __CPROVER_assert(0, "cut: OSCORE is unreachable (oscore_encryption = 0)");
  return NULL;
}
#endif
#ifdef UNREACH_BLOCK_SERVER
/* block_mode = 0: the application handles blocks itself, libcoap's server-side block machinery is off */
int coap_handle_request_put_block(coap_context_t *context, coap_session_t *session, coap_pdu_t *pdu, coap_pdu_t *response,
                                  coap_resource_t *resource, coap_string_t *uri_path, coap_opt_t *observe, int *added_block,
                                  coap_lg_srcv_t **free_lg_srcv) {
  (void)context; (void)session; (void)pdu; (void)response; (void)resource; (void)uri_path; (void)observe; (void)added_block; (void)free_lg_srcv;
  __CPROVER_assert(0, "cut: libcoap block-wise handling is unreachable (block_mode = 0)");
  return 0;
}
int coap_handle_request_send_block(coap_session_t *session, coap_pdu_t *pdu, coap_pdu_t *response, coap_resource_t *resource, coap_string_t *query) {
  (void)session; (void)pdu; (void)response; (void)resource; (void)query;
  __CPROVER_assert(0, "cut: libcoap block-wise handling is unreachable (block_mode = 0)");
  return 0;
}
#endif
#ifdef UNREACH_UPDATE_TOKEN
/* Block1 receiver scenarios in which the block with M=0 never arrives: the request token is only swapped (to the token of the
 * final block) on the out-of-order completion path, which needs lg_srcv->last_token, i.e. the final block to have been seen */
int coap_update_token(coap_pdu_t *pdu, size_t len, const uint8_t *data) {
  (void)pdu; (void)len; (void)data;
  __CPROVER_assert(0, "cut: the out-of-order completion path (token swap) is unreachable before the final block has been seen");
  __CPROVER_assume(0);
  return 0;
}
#endif
#ifdef UNREACH_SESSION_FREE
/* the application holds references to every session of a job: freeing one is itself a violation (C12) */
void coap_session_free(coap_session_t *session) {
  (void)session;
  __CPROVER_assert(0, "cut: a session referenced by the application / a queued message is never freed");
}
void coap_proxy_remove_association(coap_session_t *session, int send_failure) {
  (void)session; (void)send_failure;
  __CPROVER_assert(0, "cut: proxy associations are unreachable (no proxy configured)");
}
#endif
#endif
