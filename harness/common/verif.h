/* verif.h - harness vocabulary shared by CBMC runs and native replays (DESIGN.md 1.5).
 *
 * VERIF_IN(type, name)        declare a symbolic scalar input
 * VERIF_IN_BUF(name, n)       declare a symbolic byte buffer uint8_t name[n]
 * VERIF_ASSUME(c)             precondition / stated bound
 * VERIF_ASSERT(c, "text")     property obligation
 * VERIF_REACH("text")         reachability witness: in the -DWITNESS twin this must FAIL
 *
 * Under CBMC inputs are return values of nondet_vin_<name>() so that the JSON trace carries them by
 * name; under -DVERIF_REPLAY they are read back from the file named by $VERIF_REPLAY_FILE.
 */
#ifndef VERIF_H
#define VERIF_H
#include <stdint.h>
#include <stddef.h>
#include <string.h>

#ifdef VERIF_REPLAY
#include <stdio.h>
#include <stdlib.h>
void verif_replay_load(const char *name, void *dst, size_t n);
#define VERIF_IN(type, name) type name; verif_replay_load(#name, &name, sizeof(name))
#define VERIF_IN_BUF(name, n) uint8_t name[n]; verif_replay_load(#name, name, (n))
#define VERIF_IN_SET(type, name) do { verif_replay_load(#name, &name, sizeof(name)); } while (0)
#define VERIF_IN_SETBUF(name, n) do { verif_replay_load(#name, name, (n)); } while (0)
#define VERIF_ASSUME(c) do { if (!(c)) { fprintf(stderr, "REPLAY: assumption violated: %s (%s:%d)\n", #c, __FILE__, __LINE__); exit(77); } } while (0)
#define VERIF_ASSERT(c, msg) do { if (!(c)) { fprintf(stderr, "REPLAY: assertion failed: %s (%s:%d)\n", msg, __FILE__, __LINE__); exit(1); } } while (0)
#define VERIF_REACH(msg) do { } while (0)
void verif_register(const char *name, void (*fn)(void));
#define VERIF_HARNESS(name) void name(void); \
  __attribute__((constructor)) static void verif_reg_##name(void) { verif_register(#name, name); } \
  void name(void)
#define __CPROVER_assume(c) VERIF_ASSUME(c)
#define __CPROVER_assert(c, msg) VERIF_ASSERT(c, msg)
#else
#define VERIF_HARNESS(name) void name(void)
#define VERIF_CAT_(a, b) a##b
#define VERIF_CAT(a, b) VERIF_CAT_(a, b)
#define VERIF_ND(name) VERIF_CAT(nondet_vin_##name##__L, __LINE__)
#define VERIF_IN(type, name) type VERIF_ND(name)(void); type name = VERIF_ND(name)()
#define VERIF_IN_BUF(name, n) \
  struct vin_##name##_s { uint8_t b[n]; }; \
  struct vin_##name##_s VERIF_ND(name)(void); \
  struct vin_##name##_s name##_s = VERIF_ND(name)(); \
  uint8_t *name = name##_s.b
/* assign an already declared (e.g. global) variable / byte array */
/* (through a declared temporary: only then does the CBMC trace carry return_value_nondet_vin_<name>, which the replay extracts) */
#define VERIF_IN_SET(type, name) do { type VERIF_ND(name)(void); type name##_vin_tmp = VERIF_ND(name)(); name = name##_vin_tmp; } while (0)
#define VERIF_IN_SETBUF(name, n) do { \
  struct vin_##name##_s { uint8_t b[n]; }; \
  struct vin_##name##_s VERIF_ND(name)(void); \
  struct vin_##name##_s name##_tmp = VERIF_ND(name)(); \
  memcpy(name, name##_tmp.b, (n)); } while (0)
#define VERIF_ASSUME(c) __CPROVER_assume(c)
#ifdef WITNESS
/* vacuity twin: property assertions are neutral, the witness must be violated */
#define VERIF_ASSERT(c, msg) do { (void)(c); } while (0)
#define VERIF_REACH(msg) __CPROVER_assert(0, "WITNESS " msg)
#else
#define VERIF_ASSERT(c, msg) __CPROVER_assert((c), msg)
#define VERIF_REACH(msg) do { } while (0)
#endif
#endif

/* canary helpers: bytes outside a permitted window must keep this value */
#define VERIF_CANARY 0xA5

#endif
