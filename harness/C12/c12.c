/* C12 - sessions map 1:1 to peers, live while referenced, idle ones are reclaimed (DESIGN 4.12) */
#include "common/netenv.h"
#include "common/unreach.h"
#include <netinet/in.h>

void __CPROVER_file_local_coap_session_c_coap_make_addr_hash(coap_addr_hash_t *addr_hash, coap_proto_t proto, const coap_addr_tuple_t *addr_info);

#ifndef FAM1
#define FAM1 4
#endif
#ifndef FAM2
#define FAM2 4
#endif

static void
make_tuple(coap_addr_tuple_t *t, int fam, const uint8_t *addr, uint16_t port, uint16_t lport, uint32_t scope) {
  memset(t, 0, sizeof(*t));
  if (fam == 4) {
    t->remote.size = sizeof(struct sockaddr_in);
    t->remote.addr.sin.sin_family = AF_INET;
    t->remote.addr.sin.sin_port = port;
    memcpy(&t->remote.addr.sin.sin_addr, addr, 4);
    t->local.size = sizeof(struct sockaddr_in);
    t->local.addr.sin.sin_family = AF_INET;
    t->local.addr.sin.sin_port = lport;
  } else {
    t->remote.size = sizeof(struct sockaddr_in6);
    t->remote.addr.sin6.sin6_family = AF_INET6;
    t->remote.addr.sin6.sin6_port = port;
    t->remote.addr.sin6.sin6_scope_id = scope;
    memcpy(&t->remote.addr.sin6.sin6_addr, addr, 16);
    t->local.size = sizeof(struct sockaddr_in6);
    t->local.addr.sin6.sin6_family = AF_INET6;
    t->local.addr.sin6.sin6_port = lport;
  }
}

/* ---- L1: the session table key is injective on (family, remote address, remote port, local port, protocol) -------- */
VERIF_HARNESS(c12_l1_key) {
  VERIF_IN_BUF(a1, 16); VERIF_IN_BUF(a2, 16);
  VERIF_IN(uint16_t, p1); VERIF_IN(uint16_t, p2);
  VERIF_IN(uint16_t, l1); VERIF_IN(uint16_t, l2);
  VERIF_IN(uint32_t, s1); VERIF_IN(uint32_t, s2);
  VERIF_IN(uint8_t, pr1); VERIF_IN(uint8_t, pr2);
  VERIF_ASSUME(pr1 >= 1 && pr1 <= 6 && pr2 >= 1 && pr2 <= 6);
  static coap_addr_tuple_t t1, t2;
  static coap_addr_hash_t k1, k2;
  make_tuple(&t1, FAM1, a1, p1, l1, s1);
  make_tuple(&t2, FAM2, a2, p2, l2, s2);
  __CPROVER_file_local_coap_session_c_coap_make_addr_hash(&k1, (coap_proto_t)pr1, &t1);
  __CPROVER_file_local_coap_session_c_coap_make_addr_hash(&k2, (coap_proto_t)pr2, &t2);
  int same_peer = FAM1 == FAM2 && memcmp(a1, a2, FAM1 == 4 ? 4 : 16) == 0 && p1 == p2 && l1 == l2 && pr1 == pr2 && (FAM1 == 4 || s1 == s2);
  int same_key = memcmp(&k1, &k2, sizeof(k1)) == 0;
  VERIF_ASSERT(same_key == same_peer, "L1 two packets get the same session-table key iff they come from the same (family, address, port), local port and protocol");
#ifdef WITNESS
  if (same_key) VERIF_REACH("L1 equal keys");
  if (FAM1 != FAM2) VERIF_REACH("L1 end");
#endif
}

/* ---- S2: reference counting --------------------------------------------------------------------------------------------- */
static int free_calls;
static coap_session_t *freed;
void
coap_session_free(coap_session_t *session) {
  free_calls++;
  freed = session;
}
void
coap_proxy_remove_association(coap_session_t *session, int send_failure) {
  (void)session; (void)send_failure;
}

VERIF_HARNESS(c12_s2_refcount) {
  ne_init();
  VERIF_IN(uint32_t, ref);
  VERIF_IN(uint8_t, is_client);
  VERIF_ASSUME(ref >= 1 && ref < 1000 && is_client <= 1);
  ne_sess.ref = ref;
  ne_sess.type = is_client ? COAP_SESSION_TYPE_CLIENT : COAP_SESSION_TYPE_SERVER;
  free_calls = 0;
  coap_session_reference_lkd(&ne_sess);
  VERIF_ASSERT(ne_sess.ref == ref + 1 && free_calls == 0, "S2 taking a reference never frees");
  coap_session_release_lkd(&ne_sess);
  VERIF_ASSERT(ne_sess.ref == ref && free_calls == 0, "S2 a session with remaining references stays valid");
  coap_session_release_lkd(&ne_sess);
  if (ref == 1) {
    VERIF_ASSERT(free_calls == (is_client ? 1 : 0), "S2 a client session is freed exactly when its last reference goes; a server session stays (idle) for reclamation");
    if (is_client) VERIF_ASSERT(freed == &ne_sess, "S2 the session freed is the released one");
  } else {
    VERIF_ASSERT(free_calls == 0 && ne_sess.ref == ref - 1, "S2 release decrements by one");
  }
#ifdef WITNESS
  if (ref == 1 && is_client) VERIF_REACH("S2 last reference of a client session");
#endif
}

/* ---- S3: idle server sessions are reclaimed after the session timeout (coap_io_prepare_io_lkd) ------------------------ */
VERIF_HARNESS(c12_s3_idle) {
  ne_init();
  static coap_endpoint_t ep;
  VERIF_IN(uint32_t, ref);
  VERIF_IN(uint8_t, has_delayed);
  VERIF_IN(uint64_t, last);
  VERIF_IN(uint64_t, now);
  VERIF_IN(uint32_t, tmo);
  VERIF_IN(uint8_t, state_none);
  VERIF_ASSUME(ref <= 2 && has_delayed <= 1 && state_none <= 1 && tmo <= 600);
  VERIF_ASSUME(last < (1ull << 40) && now >= last && now - last < (1ull << 31));
  memset(&ep, 0, sizeof(ep));
  ep.context = &ne_ctx;
  ep.proto = COAP_PROTO_UDP;
  ne_ctx.endpoint = &ep;
  ne_ctx.session_timeout = tmo;
  ne_sess.type = COAP_SESSION_TYPE_SERVER;
  ne_sess.ref = ref;
  ne_sess.endpoint = &ep;
  ne_sess.last_rx_tx = last;
  ne_sess.state = state_none ? COAP_SESSION_STATE_NONE : COAP_SESSION_STATE_ESTABLISHED;
  static coap_queue_t dq;
  ne_sess.delayqueue = has_delayed ? &dq : NULL;
  /* uthash iteration contract: SESSIONS_ITER_SAFE follows hh.next from ep->sessions */
  ep.sessions = &ne_sess;
  free_calls = 0; ne_event_count = 0;
  coap_socket_t *socks[1];
  unsigned int ns = 0;
  unsigned int wait = coap_io_prepare_io_lkd(&ne_ctx, socks, 1, &ns, now);
  uint64_t timeout_ticks = (uint64_t)(tmo ? tmo : COAP_DEFAULT_SESSION_TIMEOUT) * COAP_TICKS_PER_SECOND;
  int idle = ref == 0 && !has_delayed;
  int expired = idle && (last + timeout_ticks <= now || state_none);
  VERIF_ASSERT(free_calls == (expired ? 1 : 0), "S3 a server session is reclaimed iff unreferenced, nothing held, and idle for the session timeout (or never established)");
  if (expired) VERIF_ASSERT(freed == &ne_sess && ne_event_count == 1, "S3 exactly one session-deleted event for the reclaimed session");
  else {
    VERIF_ASSERT(ne_event_count == 0 && ne_sess.ref == ref, "S3 a live session is left alone (temporary reference released)");
    if (idle) VERIF_ASSERT(wait > 0 && (uint64_t)wait <= last + timeout_ticks - now, "S3 the reported wait does not sleep past the session's idle deadline");
  }
#ifdef WITNESS
  if (expired && !state_none) VERIF_REACH("S3 idle session reclaimed");
#endif
}

/* ---- S4: the oldest idle session goes when the idle-session limit is reached ------------------------------------------------
 * Three server sessions with concrete, distinct peer addresses are entered into the endpoint's real uthash table (concrete keys:
 * the hashing constant-folds); their reference counts, held messages and last-activity times are arbitrary. A datagram from a
 * fourth peer arrives. */
#ifndef NSESS
#define NSESS 3
#endif
#ifndef VERIF_REPLAY
/* environment: interface enumeration (coap_is_bcast) finds no broadcast interface */
#include <ifaddrs.h>
int getifaddrs(struct ifaddrs **ifap) { *ifap = NULL; return 0; }
void freeifaddrs(struct ifaddrs *ifa) { (void)ifa; }
#endif
static void
s4_addr(coap_address_t *a, uint8_t last, uint16_t port) {
  memset(a, 0, sizeof(*a));
  a->size = sizeof(struct sockaddr_in);
  a->addr.sin.sin_family = AF_INET;
  a->addr.sin.sin_port = htons(port);
  a->addr.sin.sin_addr.s_addr = htonl(0x0a000000u | last);
}
VERIF_HARNESS(c12_s4_evict) {
  ne_init();
  static coap_endpoint_t ep;
  static coap_session_t s[NSESS];
  static coap_queue_t dq;
  static coap_packet_t pkt;
  uint64_t last[NSESS];
  uint32_t ref[NSESS];
  uint8_t held[NSESS];
  int i;
  VERIF_IN(uint64_t, l0); VERIF_IN(uint64_t, l1); VERIF_IN(uint64_t, l2);
  VERIF_IN(uint8_t, r0); VERIF_IN(uint8_t, r1); VERIF_IN(uint8_t, r2);
  VERIF_IN(uint8_t, h0); VERIF_IN(uint8_t, h1); VERIF_IN(uint8_t, h2);
  VERIF_IN(uint32_t, max_idle);
  VERIF_IN(uint64_t, now);
  last[0] = l0; last[1] = l1; last[2] = l2;
  ref[0] = r0; ref[1] = r1; ref[2] = r2;
  held[0] = h0; held[1] = h1; held[2] = h2;
  VERIF_ASSUME(r0 <= 1 && r1 <= 1 && r2 <= 1 && h0 <= 1 && h1 <= 1 && h2 <= 1 && max_idle <= 4);
  VERIF_ASSUME(now < (1ull << 40) && l0 <= now && l1 <= now && l2 <= now);
  memset(&ep, 0, sizeof(ep));
  ep.context = &ne_ctx;
  ep.proto = COAP_PROTO_UDP;
  s4_addr(&ep.bind_addr, 1, 5683);
  ne_ctx.endpoint = &ep;
  ne_ctx.max_idle_sessions = max_idle;
  for (i = 0; i < NSESS; i++) {
    ne_init_session(&s[i], COAP_PROTO_UDP);
    s[i].type = COAP_SESSION_TYPE_SERVER;
    s[i].endpoint = &ep;
    s[i].ref = ref[i];
    s[i].delayqueue = held[i] ? &dq : NULL;
    s[i].last_rx_tx = last[i];
    s4_addr(&s[i].addr_info.remote, (uint8_t)(10 + i), 40000);
    s4_addr(&s[i].addr_info.local, 1, 5683);
    __CPROVER_file_local_coap_session_c_coap_make_addr_hash(&s[i].addr_hash, COAP_PROTO_UDP, &s[i].addr_info);
    SESSIONS_ADD(ep.sessions, &s[i]);
  }
  s4_addr(&pkt.addr_info.remote, 99, 40000);
  s4_addr(&pkt.addr_info.local, 1, 5683);
  free_calls = 0; ne_event_count = 0;
  coap_session_t *ns = coap_endpoint_get_session(&ep, &pkt, now);
  /* reference: idle = unreferenced server session with nothing held */
  int nidle = 0, k = -1;
  for (i = 0; i < NSESS; i++)
    if (ref[i] == 0 && !held[i]) {
      nidle++;
      if (k < 0 || last[i] < last[k]) k = i;
    }
  int evict = max_idle > 0 && (uint32_t)nidle >= max_idle;
  VERIF_ASSERT(free_calls == (evict ? 1 : 0), "S4 one session is reclaimed exactly when the number of idle sessions has reached max_idle_sessions");
  if (evict) {
    int fi = freed == &s[0] ? 0 : freed == &s[1] ? 1 : 2;
    VERIF_ASSERT((freed == &s[0] || freed == &s[1] || freed == &s[2]) && ref[fi] == 0 && !held[fi], "S4 only an unreferenced session with nothing held is reclaimed");
    VERIF_ASSERT(last[fi] == last[k], "S4 the session reclaimed at the idle limit is the one that has been idle longest");
  }
  if (ns) {
    VERIF_ASSERT(ns != &s[0] && ns != &s[1] && ns != &s[2], "S4 a datagram from a new peer gets a session of its own");
    VERIF_ASSERT(ne_event_count == (evict ? 2 : 1), "S4 exactly one session-new event for the new peer (plus one session-deleted event for the reclaimed session)");
  }
#ifdef WITNESS
  if (evict && nidle >= 2 && ns) VERIF_REACH("S4 eviction among several idle sessions");
#endif
}

/* ---- S5: reference holders hand their reference back: a queued Confirmable that is parked on the session's delay queue
 * (retransmission timer fires while the session may not send: coap_retransmit -> coap_session_delay_pdu(session, pdu, node)).
 * A queue node holds one session reference (coap_wait_ack); a held message holds none (the session owns it). */
VERIF_HARNESS(c12_s5_park_node) {
  ne_init();
  VERIF_IN(uint32_t, ref);
  VERIF_IN(uint16_t, mid);
  VERIF_IN(uint16_t, mid_other);
  VERIF_IN(uint8_t, with_other);
  VERIF_IN_BUF(tok, 4);
  VERIF_ASSUME(ref >= 1 && ref < 1000 && with_other <= 1 && mid != mid_other);
  ne_sess.type = COAP_SESSION_TYPE_SERVER;
  ne_sess.ref = ref;
  free_calls = 0;
  coap_queue_t *n = ne_make_node(&ne_sess, ne_make_pdu(COAP_MESSAGE_CON, 1, mid, tok, 4), 2000, 1);   /* takes one reference */
  n->t = 100;
  ne_ctx.sendqueue = n;
  if (with_other) {
    coap_queue_t *o = ne_make_node(&ne_sess2, ne_make_pdu(COAP_MESSAGE_CON, 1, mid_other, tok, 4), 2000, 0);
    o->t = 50;
    n->next = o;
  }
  VERIF_ASSERT(ne_sess.ref == ref + 1, "S5 a queued Confirmable holds one session reference");
  coap_mid_t r = coap_session_delay_pdu(&ne_sess, n->pdu, n);
  VERIF_ASSERT(r == COAP_PDU_DELAYED, "S5 parking a queued message reports 'delayed'");
  VERIF_ASSERT(!ne_in_queue(ne_ctx.sendqueue, n), "S5 the parked message has left the send queue");
  VERIF_ASSERT(ne_sess.delayqueue == n && n->next == NULL && n->session == NULL, "S5 the parked message is now owned by the session's delay queue");
  VERIF_ASSERT(ne_sess.ref == ref && free_calls == 0, "S5 the reference the queue node held is given back exactly once when the message is parked");
  VERIF_REACH("S5 end");
}

/* ---- S6: the I/O loop's temporary reference on a client session is paired with a release on every path (keepalive due / ping
 * cannot be sent because a Confirmable is in flight / ping sent / nothing due). One client session in the context's table. */
VERIF_HARNESS(c12_s6_client_loop) {
  ne_init();
  VERIF_IN(uint32_t, ref);
  VERIF_IN(uint64_t, last);
  VERIF_IN(uint64_t, now);
  VERIF_IN(uint32_t, ping_tmo);
  VERIF_IN(uint8_t, con_active);
  VERIF_IN(uint64_t, last_ping);
  VERIF_IN(uint64_t, last_pong);
  VERIF_ASSUME(ref >= 1 && ref <= 3 && ping_tmo <= 600 && con_active <= 1);
  VERIF_ASSUME(last < (1ull << 40) && now >= last && now - last < (1ull << 31) && last_ping <= last && last_pong <= last);
  ne_ctx.ping_timeout = ping_tmo;
  ne_sess.type = COAP_SESSION_TYPE_CLIENT;
  ne_sess.ref = ref;
  ne_sess.last_rx_tx = last;
  ne_sess.last_ping = last_ping;
  ne_sess.last_pong = last_pong;
  ne_sess.con_active = con_active;       /* a Confirmable in flight: coap_session_send_ping_lkd() refuses (returns COAP_INVALID_MID) */
  /* uthash iteration contract: SESSIONS_ITER_SAFE follows hh.next from ctx->sessions */
  ne_ctx.sessions = &ne_sess;
  free_calls = 0;
  coap_socket_t *socks[1];
  unsigned int ns = 0;
  (void)coap_io_prepare_io_lkd(&ne_ctx, socks, 1, &ns, now);
  VERIF_ASSERT(free_calls == 0, "S6 a referenced client session is never freed by the I/O loop");
  {
    /* a keepalive ping that went out is a Confirmable waiting in the send queue: its node legitimately holds one reference */
    unsigned held = 0;
    coap_queue_t *q;
    for (q = ne_ctx.sendqueue; q; q = q->next) if (q->session == &ne_sess) held++;
    VERIF_ASSERT(held <= 1, "S6 at most one keepalive ping is queued per I/O step");
    VERIF_ASSERT(ne_sess.ref == ref + held, "S6 the I/O loop's temporary session reference is released on every path (keepalive included)");
  }
#ifdef WITNESS
  if (ping_tmo > 0 && last + (uint64_t)ping_tmo * COAP_TICKS_PER_SECOND <= now && con_active) VERIF_REACH("S6 keepalive due but ping refused");
#endif
}
