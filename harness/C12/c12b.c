/* C12-B1: context teardown. A heap-allocated context with one client session that is referenced by the application's handle
 * (consumed by coap_free_context), a queued Confirmable, a held (delayed) message and an async entry; then the real
 * coap_free_context_lkd() with the real coap_session_release_lkd / coap_session_free / coap_session_mfree / coap_delete_all /
 * coap_delete_all_async / uthash SESSIONS_DELETE. CBMC's --memory-leak-check decides "everything libcoap allocated is released",
 * its deallocated-object obligations decide "nothing freed twice or used after release". Message bytes symbolic. */
#include "common/netenv.h"
#include "common/unreach.h"
#include "coap3/coap_block_internal.h"

unsigned int coap_dtls_get_overhead(coap_session_t *session) { (void)session; return 29; }
int coap_netif_available(coap_session_t *session) { (void)session; return 1; }
/* epoll/close are not reached (epfd = -1); persistence / proxy / OSCORE clean-ups act on empty state */
void coap_persist_cleanup(coap_context_t *context) { (void)context; }
void coap_proxy_cleanup(coap_context_t *context) { (void)context; }
void coap_delete_all_oscore(coap_context_t *context) { (void)context; }
void coap_delete_oscore_associations(coap_session_t *session) { (void)session; }
void coap_dump_memory_type_counts(coap_log_t level) { (void)level; }

#ifndef WITH_ASYNC
#define WITH_ASYNC 1
#endif
#ifndef WITH_QUEUED
#define WITH_QUEUED 1
#endif
#ifndef WITH_HELD
#define WITH_HELD 1
#endif

static int closed_calls;
static void b1_close(coap_session_t *session) { (void)session; closed_calls++; }

VERIF_HARNESS(c12_b1_teardown) {
  VERIF_IN_BUF(tok, 4);
  coap_context_t *ctx;
  coap_session_t *s;
  ne_init();
  ctx = (coap_context_t *)coap_malloc_type(COAP_CONTEXT, sizeof(coap_context_t));
  VERIF_ASSUME(ctx != NULL);
  memcpy(ctx, &ne_ctx, sizeof(*ctx));
#ifdef COAP_EPOLL_SUPPORT
  ctx->epfd = -1;
  ctx->eptimerfd = -1;
#endif
  s = (coap_session_t *)coap_malloc_type(COAP_SESSION, sizeof(coap_session_t));
  VERIF_ASSUME(s != NULL);
  ne_init_session(s, COAP_PROTO_UDP);
  s->context = ctx;
  s->ref = 1;                           /* the application's handle from coap_new_client_session() */
  s->sock.lfunc[COAP_LAYER_SESSION].l_close = b1_close;
  memset(&s->addr_hash, 0, sizeof(s->addr_hash));
  SESSIONS_ADD(ctx->sessions, s);
  closed_calls = 0;
  ne_nack_count = 0;
#if WITH_QUEUED
  {
    coap_queue_t *n = ne_make_node(s, ne_make_pdu(COAP_MESSAGE_CON, 1, 0x1001, tok, 4), 2000, 0);
    n->t = 2000;
    ctx->sendqueue = n;
    s->con_active = 1;
  }
#endif
#if WITH_HELD
  {
    coap_queue_t *d = coap_new_node();
    VERIF_ASSUME(d != NULL);
    d->session = NULL;                  /* as coap_session_delay_pdu() builds it: a held message carries no session pointer / reference */
    d->pdu = ne_make_pdu(COAP_MESSAGE_CON, 1, 0x1002, tok, 4);
    d->id = 0x1002;
    s->delayqueue = d;
  }
#endif
#if WITH_ASYNC
  {
    coap_pdu_t *req = ne_make_pdu(COAP_MESSAGE_CON, 1, 0x1003, tok, 4);
    coap_async_t *a = coap_register_async_lkd(s, req, 0);
    VERIF_ASSERT(a != NULL && s->ref == 2 + WITH_QUEUED, "B1 an async entry holds one session reference");
    coap_delete_pdu(req);
  }
#endif
  coap_free_context_lkd(ctx);
  VERIF_ASSERT(closed_calls == 1, "B1 the session's transport is closed exactly once during teardown");
#if WITH_HELD
  VERIF_ASSERT(ne_nack_count == 1, "B1 a Confirmable still held when its session goes is reported by exactly one NACK");
#else
  VERIF_ASSERT(ne_nack_count == 0, "B1 teardown NACKs nothing that was not held");
#endif
  VERIF_REACH("B1 end");
}

/* C12-B1s: teardown of a SERVER side. One endpoint with one idle server session (ref 0 from the application's point of view) that is
 * still referenced by a pending async entry (the handler parked the request with coap_register_async) and/or an observation-free
 * resource table. "Exactly one session-deleted event per server session" and "everything released" must hold at teardown too. */
#ifndef WITH_SRV_ASYNC
#define WITH_SRV_ASYNC 1
#endif
static int b1s_del_events, b1s_other_events;
static coap_session_t *b1s_sess;
static int
b1s_event(coap_session_t *session, const coap_event_t event) {
  if (event == COAP_EVENT_SERVER_SESSION_DEL && session == b1s_sess) b1s_del_events++;
  else b1s_other_events++;
  return 0;
}
int coap_netif_available_ep(coap_endpoint_t *ep) { (void)ep; return 1; }
static int b1s_ep_closed;
void coap_netif_close_ep(coap_endpoint_t *ep) { (void)ep; b1s_ep_closed++; }

VERIF_HARNESS(c12_b1_teardown_server) {
  VERIF_IN_BUF(tok, 4);
  coap_context_t *ctx;
  coap_endpoint_t *ep;
  coap_session_t *s;
  ne_init();
  ctx = (coap_context_t *)coap_malloc_type(COAP_CONTEXT, sizeof(coap_context_t));
  VERIF_ASSUME(ctx != NULL);
  memcpy(ctx, &ne_ctx, sizeof(*ctx));
  ctx->handle_event = b1s_event;
#ifdef COAP_EPOLL_SUPPORT
  ctx->epfd = -1;
  ctx->eptimerfd = -1;
#endif
  ep = coap_malloc_endpoint();
  VERIF_ASSUME(ep != NULL);
  memset(ep, 0, sizeof(*ep));
  ep->context = ctx;
  ep->proto = COAP_PROTO_UDP;
  ctx->endpoint = ep;
  s = (coap_session_t *)coap_malloc_type(COAP_SESSION, sizeof(coap_session_t));
  VERIF_ASSUME(s != NULL);
  ne_init_session(s, COAP_PROTO_UDP);
  s->type = COAP_SESSION_TYPE_SERVER;
  s->context = ctx;
  s->endpoint = ep;
  s->ref = 0;                           /* idle server session: nobody but the table knows it */
  s->sock.lfunc[COAP_LAYER_SESSION].l_close = b1_close;
  memset(&s->addr_hash, 0, sizeof(s->addr_hash));
  SESSIONS_ADD(ep->sessions, s);
  b1s_sess = s;
  b1s_del_events = b1s_other_events = b1s_ep_closed = 0;
  closed_calls = 0;
#if WITH_SRV_ASYNC
  {
    coap_pdu_t *req = ne_make_pdu(COAP_MESSAGE_CON, 1, 0x1003, tok, 4);
    coap_async_t *a = coap_register_async_lkd(s, req, 0);
    VERIF_ASSERT(a != NULL && s->ref == 1, "B1s an async entry holds one session reference");
    coap_delete_pdu(req);
  }
#endif
  coap_free_context_lkd(ctx);
  VERIF_ASSERT(b1s_del_events == 1, "B1s teardown raises exactly one session-deleted event for the server session");
  VERIF_ASSERT(closed_calls == 1, "B1s the server session's transport is closed exactly once during teardown");
  VERIF_ASSERT(b1s_ep_closed == 1, "B1s the endpoint socket is closed exactly once");
  VERIF_REACH("B1s end");
}
