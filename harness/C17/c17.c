/* C17 - persisted observe state survives a crash at any point and is restored (DESIGN 4.17).
 * stdio is replaced by harness/ref/memfs.c (in-memory files, ISO C stream modes, atomic rename, symbolic crash point). */
#include "coap3/coap_libcoap_build.h"
#include "common/verif.h"
#include "ref/memfs.h"
#include <stdlib.h>

int __CPROVER_file_local_coap_subscribe_c_coap_op_observe_added(coap_session_t *session, coap_subscription_t *a_observe_key, coap_proto_t a_e_proto,
    coap_address_t *a_e_listen_addr, coap_addr_tuple_t *a_s_addr_info, coap_bin_const_t *a_raw_packet, coap_bin_const_t *a_oscore_info, void *user_data);
int __CPROVER_file_local_coap_subscribe_c_coap_op_observe_deleted(coap_session_t *session, coap_subscription_t *d_observe_key, void *user_data);
int __CPROVER_file_local_coap_subscribe_c_coap_op_dyn_resource_added(coap_session_t *session, coap_str_const_t *resource_name, coap_bin_const_t *packet, void *user_data);
int __CPROVER_file_local_coap_subscribe_c_coap_op_resource_deleted(coap_context_t *context, coap_str_const_t *resource_name, void *user_data);
int __CPROVER_file_local_coap_subscribe_c_coap_op_obs_cnt_track_observe(coap_context_t *context, coap_str_const_t *resource_name, uint32_t n_observe_num, void *user_data);
void __CPROVER_file_local_coap_subscribe_c_coap_op_dyn_resource_load_disk(coap_context_t *ctx);
void __CPROVER_file_local_coap_subscribe_c_coap_op_obs_cnt_load_disk(coap_context_t *context);

static coap_context_t ctx;
static coap_session_t sess;
static coap_resource_t cnt_res;
static int use_res;
static coap_bin_const_t fname_dyn = {1, (const uint8_t *)"f"}, fname_cnt = {1, (const uint8_t *)"c"}, fname_obs = {1, (const uint8_t *)"o"};

/* global lock (COAP_THREAD_SAFE=1 in the CMake build): single-thread model */
#include <pthread.h>
pthread_t pthread_self(void) { return (pthread_t)1; }
int pthread_mutex_lock(pthread_mutex_t *m) { (void)m; return 0; }
int pthread_mutex_unlock(pthread_mutex_t *m) { (void)m; return 0; }
extern int coap_started;

/* the persistence code formats/parses with these; CBMC has no models */
int
atoi(const char *s) {
  int v = 0, k;
  for (k = 0; k < 10 && s[k] >= '0' && s[k] <= '9'; k++) v = v * 10 + (s[k] - '0');
  return v;
}

static void
setup(void) {
  memfs_reset();
  coap_started = 1;
  use_res = 0;
  memset(&ctx, 0, sizeof(ctx));
  memset(&sess, 0, sizeof(sess));
  sess.context = &ctx;
  sess.proto = COAP_PROTO_UDP;
  ctx.dyn_resource_save_file = &fname_dyn;
  ctx.obs_cnt_save_file = &fname_cnt;
  ctx.observe_save_file = &fname_obs;
  ctx.observe_save_freq = 1;
}

static int
main_file(const char *name) {
  int i;
  for (i = 0; i < MEMFS_NFILES; i++)
    if (memfs_files[i].exists && strcmp(memfs_files[i].name, name) == 0) return i;
  return -1;
}

/* reference record image: proto (int), name length (size_t), name, packet length (size_t), packet */
static size_t
ref_record(uint8_t *out, const coap_str_const_t *name, const coap_bin_const_t *pkt) {
  size_t o = 0;
  coap_proto_t p = COAP_PROTO_UDP;
  memcpy(out + o, &p, sizeof(p)); o += sizeof(p);
  memcpy(out + o, &name->length, sizeof(size_t)); o += sizeof(size_t);
  memcpy(out + o, name->s, name->length); o += name->length;
  memcpy(out + o, &pkt->length, sizeof(size_t)); o += sizeof(size_t);
  memcpy(out + o, pkt->s, pkt->length); o += pkt->length;
  return o;
}

static int
file_equals(int f, const uint8_t *img, size_t n) {
  size_t i;
  if (f < 0 || memfs_files[f].len != n) return 0;
  for (i = 0; i < MEMFS_CAP; i++)
    if (i < n && memfs_files[f].data[i] != img[i]) return 0;
  return 1;
}

static int
file_equals_prefix(int f, const uint8_t *img, size_t n) {
  size_t i;
  if (f < 0 || memfs_files[f].len < n) return 0;
  for (i = 0; i < MEMFS_CAP; i++)
    if (i < n && memfs_files[f].data[i] != img[i]) return 0;
  return 1;
}

static coap_str_const_t name_a = {1, (const uint8_t *)"a"}, name_b = {1, (const uint8_t *)"b"};

/* ---- B1: dynamic resource added / deleted, crash at any point ------------------------------------------------------- */
#ifndef OP
#define OP 0      /* 0: add B to a file holding A; 1: delete A from a file holding A,B; 2: add A to an empty store */
#endif
VERIF_HARNESS(c17_b1_dyn_resource) {
  VERIF_IN_BUF(pa, 4);
  VERIF_IN_BUF(pb, 4);
  /* crash point: enumerated, one job per value (a symbolic one multiplies every stdio call into two worlds and did
   * not finish); -1 = no crash. Record contents stay symbolic. */
#ifndef CRASH
#define CRASH -1
#endif
  const int crash = CRASH;
  coap_bin_const_t pkt_a = {4, pa}, pkt_b = {4, pb};
  static uint8_t pre[MEMFS_CAP], post[MEMFS_CAP];
  size_t npre = 0, npost = 0;
  setup();
  /* history before the interrupted update (no crash) */
#if OP == 0 || OP == 1
  VERIF_ASSERT(__CPROVER_file_local_coap_subscribe_c_coap_op_dyn_resource_added(&sess, &name_a, &pkt_a, NULL) == 1, "B1 first record saved");
  npre = ref_record(pre, &name_a, &pkt_a);
#endif
#if OP == 1
  VERIF_ASSERT(__CPROVER_file_local_coap_subscribe_c_coap_op_dyn_resource_added(&sess, &name_b, &pkt_b, NULL) == 1, "B1 second record saved");
  npre += ref_record(pre + npre, &name_b, &pkt_b);
#endif
#if OP != 2
  VERIF_ASSERT(file_equals(main_file("f"), pre, npre), "B1 the file holds exactly the records saved so far, in order (complete state before the update)");
#endif
  /* the update that is interrupted */
  memfs_ops = 0; memfs_crash_at = crash; memfs_frozen = 0;
#if OP == 0
  (void)__CPROVER_file_local_coap_subscribe_c_coap_op_dyn_resource_added(&sess, &name_b, &pkt_b, NULL);
  memcpy(post, pre, npre); npost = npre + ref_record(post + npre, &name_b, &pkt_b);
#elif OP == 1
  (void)__CPROVER_file_local_coap_subscribe_c_coap_op_resource_deleted(&ctx, &name_a, NULL);
  npost = ref_record(post, &name_b, &pkt_b);
#else
  (void)__CPROVER_file_local_coap_subscribe_c_coap_op_dyn_resource_added(&sess, &name_a, &pkt_a, NULL);
  npost = ref_record(post, &name_a, &pkt_a);
#endif
  {
    int f = main_file("f");
    int is_pre = (npre == 0 && f < 0) || file_equals(f, pre, npre);
    int is_post = file_equals(f, post, npost);
    VERIF_ASSERT(is_pre || is_post, "B1 after a crash at any point the file holds the complete old or the complete new state, never a mixture");
    if (crash < 0 || !memfs_frozen) VERIF_ASSERT(is_post, "B1 without a crash the new state is in place");
  }
  VERIF_REACH("B1 end");
}

/* ---- B1c: observe counter file, crash at any point ---------------------------------------------------------------------- */
VERIF_HARNESS(c17_b1_obs_cnt) {
  /* counter values are concrete here (their decimal formatting/parsing divides by 10; symbolic values did not finish):
   * these jobs are scripted runs over every crash point, the arithmetic is L1's subject */
  const uint16_t va = 40, vb = 1234;
  const int crash = CRASH;
  setup();
  VERIF_ASSERT(__CPROVER_file_local_coap_subscribe_c_coap_op_obs_cnt_track_observe(&ctx, &name_a, va, NULL) == 1, "B1c first counter saved");
  static memfs_file_t pre;
  int f0 = main_file("c");
  VERIF_ASSERT(f0 >= 0, "B1c counter file exists");
  pre = memfs_files[f0];
  memfs_ops = 0; memfs_crash_at = crash; memfs_frozen = 0;
  (void)__CPROVER_file_local_coap_subscribe_c_coap_op_obs_cnt_track_observe(&ctx, &name_b, vb, NULL);
  int f = main_file("c");
  VERIF_ASSERT(f >= 0, "B1c the counter file is never missing after a crash");
  if (f >= 0) {
    int is_pre = file_equals(f, pre.data, pre.len);
    /* new state: the old line followed by "b <vb>\n": check its shape through the loader-visible content */
    int is_post = memfs_files[f].len > pre.len && file_equals_prefix(f, pre.data, pre.len);
    VERIF_ASSERT(is_pre || is_post, "B1c the counter file is the complete old state or the old state plus the new line");
    if (!memfs_frozen) VERIF_ASSERT(is_post && memfs_files[f].data[pre.len] == 'b' && memfs_files[f].data[memfs_files[f].len - 1] == '\n', "B1c without a crash the new line is appended");
  }
  VERIF_REACH("B1c end");
}

/* ---- B2: restore after restart ---------------------------------------------------------------------------------------------- */
static int h_calls, h_seen_a, h_seen_b;
static void
h_put(coap_resource_t *resource, coap_session_t *session, const coap_pdu_t *request, const coap_string_t *query, coap_pdu_t *response) {
  (void)resource; (void)session; (void)query; (void)response;
  h_calls++;
  /* the two stored requests differ in their message id */
  if (request->mid == 0x0001) h_seen_a = 1;
  if (request->mid == 0x0002) h_seen_b = 1;
}
coap_resource_t *
coap_get_resource_from_uri_path_lkd(coap_context_t *context, coap_str_const_t *uri_path) {
  (void)context; (void)uri_path;
  return use_res ? &cnt_res : NULL;      /* B2: after the restart no dynamic resource exists yet; L1: the observed one */
}
VERIF_HARNESS(c17_b2_restore) {
  static const uint8_t put_a[4] = {0x40, 0x03, 0x00, 0x01}, put_b[4] = {0x40, 0x03, 0x00, 0x02};
  coap_bin_const_t pkt_a = {4, put_a}, pkt_b = {4, put_b};
  static coap_resource_t unknown;
  setup();
  memset(&unknown, 0, sizeof(unknown));
  unknown.is_unknown = 1;
  unknown.handler[COAP_REQUEST_PUT - 1] = h_put;
  ctx.unknown_resource = &unknown;
  VERIF_ASSERT(__CPROVER_file_local_coap_subscribe_c_coap_op_dyn_resource_added(&sess, &name_a, &pkt_a, NULL) == 1, "B2 resource a saved");
  VERIF_ASSERT(__CPROVER_file_local_coap_subscribe_c_coap_op_dyn_resource_added(&sess, &name_b, &pkt_b, NULL) == 1, "B2 resource b saved");
  /* restart */
  h_calls = h_seen_a = h_seen_b = 0;
  __CPROVER_file_local_coap_subscribe_c_coap_op_dyn_resource_load_disk(&ctx);
  VERIF_ASSERT(h_calls == 2 && h_seen_a && h_seen_b, "B2 on restart every dynamically created resource that was not deleted is re-created (its creating request is replayed)");
  VERIF_REACH("B2 end");
}

/* ---- L1: counter restart arithmetic ---------------------------------------------------------------------------------------- */
VERIF_HARNESS(c17_l1_counter) {
  /* the counter file as coap_op_obs_cnt_track_observe writes it ("<name> <decimal>\n", format checked in B1c): one line
   * for resource "a" with a 4-digit symbolic value; the digit COUNT is concrete so that the file length is */
  VERIF_IN_BUF(dg, 4);
  /* save frequency: concrete per job (the loader divides by it; division by a symbolic value stalls the SAT back end) */
#ifndef FREQ
#define FREQ 1
#endif
  const uint32_t freq = FREQ;
  VERIF_IN(uint32_t, sent);
  int k;
  for (k = 0; k < 4; k++) VERIF_ASSUME(dg[k] >= '0' && dg[k] <= '9');
  uint32_t saved = (uint32_t)(dg[0] - '0') * 1000 + (uint32_t)(dg[1] - '0') * 100 + (uint32_t)(dg[2] - '0') * 10 + (uint32_t)(dg[3] - '0');
  /* values that can have been put on the wire since the save that wrote 'saved' (S2: the counter invariant - no multiple of
   * save_freq lies in (saved, sent]; the saved value itself need NOT be a multiple: coap_add_observer saves at registration) */
  VERIF_ASSUME(sent >= saved && sent / freq == saved / freq);
  setup();
  ctx.observe_save_freq = freq;
  memfs_files[0].exists = 1;
  memfs_files[0].name[0] = 'c'; memfs_files[0].name[1] = 0;
  memfs_files[0].data[0] = 'a'; memfs_files[0].data[1] = ' ';
  for (k = 0; k < 4; k++) memfs_files[0].data[2 + k] = dg[k];
  memfs_files[0].data[6] = '\n';
  memfs_files[0].len = 7;
  /* restart: the loader looks the resource up by name */
  memset(&cnt_res, 0, sizeof(cnt_res));
  cnt_res.observable = 1;
  use_res = 1;
  __CPROVER_file_local_coap_subscribe_c_coap_op_obs_cnt_load_disk(&ctx);
  /* first notification after restart uses observe + 1 (coap_resource_notify_observers_lkd) */
  uint32_t first = (cnt_res.observe + 1) & 0xFFFFFF;
  VERIF_ASSERT(first > sent, "L1 the first Observe value sent after restart is greater than any value sent before the crash");
  VERIF_REACH("L1 end");
}

/* ---- S2: the counter invariant "no multiple of save_freq lies in (value on file, current Observe value]" ------------------------
 * is preserved by one real coap_resource_notify_observers_lkd() step from every state (the value on file is whatever the
 * tracking callback was last given; L1 shows that the loader's round-up is right for every state satisfying the invariant). */
static uint32_t s2_file;
static int s2_saves;
static int
s2_track(coap_context_t *context, coap_str_const_t *resource_name, uint32_t observe_num, void *user_data) {
  (void)context; (void)resource_name; (void)user_data;
  s2_file = observe_num;
  s2_saves++;
  return 1;
}
void coap_update_io_timer(coap_context_t *context, coap_tick_t delay) { (void)context; (void)delay; }
VERIF_HARNESS(c17_s2_counter_step) {
#ifndef FREQ
#define FREQ 1
#endif
  const uint32_t freq = FREQ;
  static coap_subscription_t sub;
  VERIF_IN(uint32_t, observe);
  VERIF_IN(uint32_t, on_file);
  VERIF_ASSUME(observe <= 0xFFFFFF && on_file <= observe && observe / freq == on_file / freq);
  setup();
  ctx.observe_save_freq = freq;
  ctx.track_observe_value = s2_track;
  memset(&cnt_res, 0, sizeof(cnt_res));
  cnt_res.context = &ctx;
  cnt_res.observable = 1;
  cnt_res.subscribers = &sub;
  cnt_res.observe = observe;
  s2_file = on_file;
  int r = coap_resource_notify_observers_lkd(&cnt_res, NULL);
  VERIF_ASSERT(r == 1 && cnt_res.observe == ((observe + 1) & 0xFFFFFF), "S2 a notification trigger advances the Observe counter by one (mod 2^24)");
  VERIF_ASSERT(s2_file <= cnt_res.observe && cnt_res.observe / freq == s2_file / freq,
               "S2 the value on file is never more than a partial save interval behind the counter in use (no multiple of save_freq is passed without a save)");
#ifdef WITNESS
  if (s2_saves == 1 && observe != 0xFFFFFF) VERIF_REACH("S2 step with a save");
#endif
}

/* ---- S3: registration establishes the counter invariant ------------------------------------------------------------------------
 * a new subscription (real coap_add_observer) hands the counter in use to the tracking callback, whatever its value: from then on
 * the file has an entry for the resource and S2/L1 apply. */
#ifdef C17_REGISTRATION
coap_cache_key_t *
coap_cache_derive_key_w_ignore(coap_session_t *session, const coap_pdu_t *pdu, coap_cache_session_based_t session_based,
                               const uint16_t *cache_ignore_options, size_t cache_ignore_count) {
  (void)session; (void)pdu; (void)session_based; (void)cache_ignore_options; (void)cache_ignore_count;
  coap_cache_key_t *k = (coap_cache_key_t *)coap_malloc_type(COAP_CACHE_KEY, sizeof(coap_cache_key_t));
  if (k) memset(k, 0, sizeof(*k));       /* hashing (GnuTLS) is not the subject: every request hashes to the same key */
  return k;
}
void coap_delete_cache_key(coap_cache_key_t *cache_key) { coap_free_type(COAP_CACHE_KEY, cache_key); }
coap_session_t *coap_session_reference_lkd(coap_session_t *session) { ++session->ref; return session; }
/* coap_session.c is not part of this job: the two session helpers coap_pdu_duplicate_lkd uses */
size_t coap_session_max_pdu_size_lkd(const coap_session_t *session) { (void)session; return 1148; }
uint16_t coap_new_message_id_lkd(coap_session_t *session) { return ++session->tx_mid; }
void coap_show_pdu(coap_log_t level, const coap_pdu_t *pdu) { (void)level; (void)pdu; }

VERIF_HARNESS(c17_s3_registration) {
#ifndef FREQ
#define FREQ 1
#endif
  VERIF_IN(uint32_t, observe);
  VERIF_IN_BUF(tok, 2);
  VERIF_ASSUME(observe <= 0xFFFFFF);
  setup();
  ctx.observe_save_freq = FREQ;
  ctx.track_observe_value = s2_track;
  memset(&cnt_res, 0, sizeof(cnt_res));
  cnt_res.context = &ctx;
  cnt_res.observable = 1;
  cnt_res.observe = observe;
  sess.mtu = 1152;
  coap_pdu_t *req = coap_pdu_init(COAP_MESSAGE_CON, COAP_REQUEST_CODE_GET, 0x1234, 64);
  VERIF_ASSUME(req != NULL);
  coap_add_token(req, 2, tok);
  coap_bin_const_t token = {2, req->actual_token.s};
  s2_saves = 0;
  coap_subscription_t *s = coap_add_observer(&cnt_res, &sess, &token, req);
  VERIF_ASSERT(s != NULL && cnt_res.subscribers == s, "S3 a first registration creates the subscription");
  VERIF_ASSERT(cnt_res.observe == observe, "S3 registration does not change the counter");
  VERIF_ASSERT(s2_saves >= 1 && s2_file == cnt_res.observe,
               "S3 a new subscription puts the counter in use on file (the restart round-up needs an entry for the resource)");
  VERIF_REACH("S3 end");
}
#endif

/* ---- B1o: the observe-subscription file (coap_op_observe_added / coap_op_observe_deleted), crash at any point ------------------
 * records: subscription key, protocol, listening address, session address tuple, request packet, "no OSCORE data" marker.
 * Keys are opaque to these functions (compared and copied, never dereferenced). */
static coap_subscription_t o_sub_a, o_sub_b;   /* (addresses of real objects: CBMC constant-folds their byte round trip through the file, not that of integer-cast pointers) */
#define KEY_A (&o_sub_a)
#define KEY_B (&o_sub_b)
static coap_address_t o_listen;
static coap_addr_tuple_t o_tuple_a, o_tuple_b;
static size_t
ref_obs_record(uint8_t *out, coap_subscription_t *key, const coap_addr_tuple_t *tuple, const coap_bin_const_t *pkt) {
  size_t o = 0;
  coap_proto_t p = COAP_PROTO_UDP;
  ssize_t none = -1;
  memcpy(out + o, &key, sizeof(key)); o += sizeof(key);
  memcpy(out + o, &p, sizeof(p)); o += sizeof(p);
  memcpy(out + o, &o_listen, sizeof(o_listen)); o += sizeof(o_listen);
  memcpy(out + o, tuple, sizeof(*tuple)); o += sizeof(*tuple);
  memcpy(out + o, &pkt->length, sizeof(size_t)); o += sizeof(size_t);
  memcpy(out + o, pkt->s, pkt->length); o += pkt->length;
  memcpy(out + o, &none, sizeof(none)); o += sizeof(none);
  return o;
}
VERIF_HARNESS(c17_b1_observe) {
  VERIF_IN_BUF(pa, 4);
  VERIF_IN_BUF(pb, 4);
  const int crash = CRASH;
  coap_bin_const_t pkt_a = {4, pa}, pkt_b = {4, pb};
  static uint8_t pre[MEMFS_CAP], post[MEMFS_CAP];
  size_t npre = 0, npost = 0;
  setup();
  o_listen.size = sizeof(struct sockaddr_in);
  o_listen.addr.sin.sin_family = AF_INET;
  o_listen.addr.sin.sin_port = 0x3316;
  o_tuple_a.remote = o_listen; o_tuple_a.local = o_listen; o_tuple_a.remote.addr.sin.sin_addr.s_addr = 0x0a00000a;
  o_tuple_b = o_tuple_a; o_tuple_b.remote.addr.sin.sin_addr.s_addr = 0x0b00000a;
#if OP == 0 || OP == 1
  VERIF_ASSERT(__CPROVER_file_local_coap_subscribe_c_coap_op_observe_added(&sess, KEY_A, COAP_PROTO_UDP, &o_listen, &o_tuple_a, &pkt_a, NULL, NULL) == 1, "B1o first subscription saved");
  npre = ref_obs_record(pre, KEY_A, &o_tuple_a, &pkt_a);
#endif
#if OP == 1
  VERIF_ASSERT(__CPROVER_file_local_coap_subscribe_c_coap_op_observe_added(&sess, KEY_B, COAP_PROTO_UDP, &o_listen, &o_tuple_b, &pkt_b, NULL, NULL) == 1, "B1o second subscription saved");
  npre += ref_obs_record(pre + npre, KEY_B, &o_tuple_b, &pkt_b);
#endif
#if OP != 2
  VERIF_ASSERT(file_equals(main_file("o"), pre, npre), "B1o the file holds exactly the subscriptions saved so far, in order (complete state before the update)");
#endif
  memfs_ops = 0; memfs_crash_at = crash; memfs_frozen = 0;
#if OP == 0
  (void)__CPROVER_file_local_coap_subscribe_c_coap_op_observe_added(&sess, KEY_B, COAP_PROTO_UDP, &o_listen, &o_tuple_b, &pkt_b, NULL, NULL);
  memcpy(post, pre, npre); npost = npre + ref_obs_record(post + npre, KEY_B, &o_tuple_b, &pkt_b);
#elif OP == 1
  (void)__CPROVER_file_local_coap_subscribe_c_coap_op_observe_deleted(&sess, KEY_A, NULL);
  npost = ref_obs_record(post, KEY_B, &o_tuple_b, &pkt_b);
#else
  (void)__CPROVER_file_local_coap_subscribe_c_coap_op_observe_added(&sess, KEY_A, COAP_PROTO_UDP, &o_listen, &o_tuple_a, &pkt_a, NULL, NULL);
  npost = ref_obs_record(post, KEY_A, &o_tuple_a, &pkt_a);
#endif
  {
    int f = main_file("o");
    int is_pre = (npre == 0 && f < 0) || file_equals(f, pre, npre);
    int is_post = file_equals(f, post, npost);
    VERIF_ASSERT(is_pre || is_post, "B1o after a crash at any point the observe file holds the complete old or the complete new set of subscriptions, never a mixture");
    if (crash < 0 || !memfs_frozen) VERIF_ASSERT(is_post, "B1o without a crash the new set is in place");
  }
  VERIF_REACH("B1o end");
}
