/* C05-S3: WebSocket frame reader coap_ws_read() (coap_ws.c), one call from each reader state.
 *
 * Stream = one frame F (header H bytes: 2 + extended length + optional 4-byte mask key; payload P bytes) followed by the first
 * bytes of the next frame. Abstract state "the first k bytes of the stream have been consumed" is represented in coap_ws_state_t
 * exactly as the reader keeps it (header phase: rd_header[0..k), hdr_ofs = k; payload phase: all_hdr_in, data_size, mask key,
 * data_ofs = k - H, received raw bytes in the caller's buffer). One real coap_ws_read() then gets a chunk of c bytes through the
 * l_read stub of the layer below. The result must be what the stream says: a frame that ends inside the chunk is delivered once,
 * with exactly its (unmasked) payload, nothing is forgotten or duplicated, bytes of the next frame are kept as the start of the
 * next header, and the post-state is again the representation of k + (bytes taken).
 * Concrete per (k, c) iteration: everything that steers a copy size (header bytes 0/1, extended length, k, c). Symbolic: mask key,
 * payload bytes, the next frame's bytes, and - in the header phase, where the reader must not depend on it - the stale data_ofs
 * left behind by the previous frame.
 * The caller's buffer is kept across calls here (claim is about the frame reader; how coap_read_session keeps that buffer is outside).
 */
#include "common/netenv.h"
#include "common/unreach.h"
#include "coap3/coap_ws_internal.h"

#ifndef PLEN
#define PLEN 2          /* payload length of the frame */
#endif
#ifndef LFORM
#define LFORM 0         /* 0: 7-bit length, 1: 16-bit extended length, 2: 64-bit extended length */
#endif
#ifndef MASKED
#define MASKED 1        /* 1: client-to-server frame (masked; we are the server), 0: server-to-client */
#endif
#ifndef DATALEN
#define DATALEN 40
#endif
#define EXT (LFORM == 0 ? 0 : LFORM == 1 ? 2 : 8)
#define HLEN (2 + EXT + (MASKED ? 4 : 0))
#define TLEN (HLEN + PLEN)
#define NEXTB 3         /* bytes of the following frame that may arrive in the same read */

static uint8_t stream[(TLEN + NEXTB) > 14 ? (TLEN + NEXTB) : 14];
static int s_pos, s_avail, rd_calls;
static ssize_t
w_l_read(coap_session_t *session, uint8_t *data, size_t datalen) {
  (void)session;
  size_t n = (size_t)s_avail < datalen ? (size_t)s_avail : datalen;
  rd_calls++;
  if (n) memcpy(data, &stream[s_pos], n);
  s_pos += (int)n;
  s_avail -= (int)n;
  return (ssize_t)n;
}
static int close_calls;
void coap_ws_close(coap_session_t *session) { (void)session; close_calls++; }
int coap_netif_available(coap_session_t *session) { (void)session; return 1; }
static int ws_events;
static coap_event_t ws_last_event;
int coap_handle_event_lkd(coap_context_t *context, coap_event_t event, coap_session_t *session) { (void)context; (void)session; ws_events++; ws_last_event = event; return 0; }

static coap_ws_state_t ws;
static uint64_t stale_ofs;
static uint8_t data[DATALEN + 8];

static void
one_step(int k, int c) {
  int i;
  memset(&ws, 0, sizeof(ws));
  ws.up = 1;
  ws.state = MASKED ? COAP_SESSION_TYPE_SERVER : COAP_SESSION_TYPE_CLIENT;
  for (i = 0; i < DATALEN + 8; i++) data[i] = 0xEE;
  if (k < HLEN) {
    for (i = 0; i < k; i++) ws.rd_header[i] = stream[i];
    ws.hdr_ofs = k;
    ws.data_ofs = (size_t)stale_ofs;               /* whatever the previous frame left: must not matter */
    ws.data_size = 0;
  } else {
    ws.all_hdr_in = 1;
    ws.hdr_ofs = HLEN;
    for (i = 0; i < HLEN; i++) ws.rd_header[i] = stream[i];
#if MASKED
    for (i = 0; i < 4; i++) ws.mask_key[i] = stream[2 + EXT + i];
#endif
    ws.data_size = PLEN;
    ws.data_ofs = (size_t)(k - HLEN);
    for (i = 0; i < k - HLEN; i++) data[i] = stream[HLEN + i];
  }
  ne_sess.ws = &ws;
  s_pos = k;
  s_avail = c;
  rd_calls = close_calls = 0;
  ssize_t r = coap_ws_read(&ne_sess, data, DATALEN);
  /* reference: how far does one call get? */
  int pos = k, avail = c, done = 0;
  if (pos < HLEN) {
    int take = avail < 14 - pos ? avail : 14 - pos;
    pos += take; avail -= take;
  }
  if (pos >= HLEN) {
    if (pos < TLEN) {
      int take = avail < TLEN - pos ? avail : TLEN - pos;
      pos += take; avail -= take;
    }
    if (pos >= TLEN) done = 1;
  }
  VERIF_ASSERT(close_calls == 0, "S3 a well-formed frame never closes the connection");
  VERIF_ASSERT(s_pos == pos, "S3 the reader takes exactly the bytes the frame structure allows (none skipped, none left that it could use)");
  if (done) {
    VERIF_ASSERT(r == PLEN, "S3 a frame that ends inside this read is delivered with its payload length");
    for (i = 0; i < PLEN; i++)
      VERIF_ASSERT(data[i] == (uint8_t)(stream[HLEN + i] ^ (MASKED ? stream[2 + EXT + (i % 4)] : 0)), "S3 delivered payload == (unmasked) payload bytes of the stream, in order");
    VERIF_ASSERT(data[PLEN] == 0xEE, "S3 nothing is written behind the payload");
    VERIF_ASSERT(ws.all_hdr_in == 0 && ws.hdr_ofs == pos - TLEN, "S3 bytes behind the frame are kept as the start of the next frame header");
    for (i = 0; i < pos - TLEN; i++)
      VERIF_ASSERT(ws.rd_header[i] == stream[TLEN + i], "S3 the kept bytes are the next frame's first bytes");
  } else {
    VERIF_ASSERT(r == 0, "S3 nothing is delivered before the frame is complete");
    if (pos < HLEN) {
      VERIF_ASSERT(ws.all_hdr_in == 0 && ws.hdr_ofs == pos, "S3 header bytes received so far are remembered");
      for (i = 0; i < pos; i++) VERIF_ASSERT(ws.rd_header[i] == stream[i], "S3 remembered header bytes are the stream's");
    } else {
      VERIF_ASSERT(ws.all_hdr_in == 1 && ws.data_size == PLEN && ws.data_ofs == (size_t)(pos - HLEN), "S3 payload bytes received so far are accounted for");
      for (i = 0; i < pos - HLEN; i++) VERIF_ASSERT(data[i] == stream[HLEN + i], "S3 received payload bytes are stored in order");
#if MASKED
      for (i = 0; i < 4; i++) VERIF_ASSERT(ws.mask_key[i] == stream[2 + EXT + i], "S3 the mask key of the frame is remembered");
#endif
    }
  }
}

VERIF_HARNESS(c05_s3_ws_step) {
  int k, c, i;
  VERIF_IN_BUF(sym, TLEN + NEXTB);
  VERIF_IN(uint64_t, stale);
  VERIF_ASSUME(stale <= DATALEN);
  stale_ofs = stale;
  ne_init();
  ne_sess.proto = COAP_PROTO_WS;
  ne_sess.sock.lfunc[COAP_LAYER_WS].l_read = w_l_read;
  for (i = 0; i < TLEN + NEXTB; i++) stream[i] = sym[i];
  /* size-steering header bytes are concrete */
  stream[0] = 0x82;                                  /* FIN + binary */
#if LFORM == 0
  stream[1] = (MASKED ? 0x80 : 0) | PLEN;
#elif LFORM == 1
  stream[1] = (MASKED ? 0x80 : 0) | 126; stream[2] = (PLEN >> 8) & 0xff; stream[3] = PLEN & 0xff;
#else
  stream[1] = (MASKED ? 0x80 : 0) | 127; for (i = 2; i < 9; i++) stream[i] = 0; stream[9] = PLEN;
#endif
  for (k = 0; k < TLEN; k++)
    for (c = 1; c <= TLEN - k + NEXTB; c++)
      one_step(k, c);
  VERIF_REACH("S3 all (k, c) steps executed");
}

/* ---- oversize / malformed declarations: closed with the right status, nothing read into the caller's buffer ----------------- */
#ifndef OVER_HI
#define OVER_HI 0x80
#endif
#ifndef OVER_LO
#define OVER_LO 0x10
#endif
VERIF_HARNESS(c05_s3_ws_oversize) {
  int i;
  VERIF_IN_BUF(sym, 14);
  ne_init();
  ne_sess.proto = COAP_PROTO_WS;
  ne_sess.sock.lfunc[COAP_LAYER_WS].l_read = w_l_read;
  memset(&ws, 0, sizeof(ws));
  ws.up = 1;
  ws.state = COAP_SESSION_TYPE_SERVER;
  for (i = 0; i < DATALEN + 8; i++) data[i] = 0xEE;
  for (i = 0; i < 14; i++) stream[i] = sym[i];
  stream[0] = 0x82;
  stream[1] = 0x80 | 127;                            /* masked, 64-bit length form */
  stream[2] = OVER_HI; for (i = 3; i < 9; i++) stream[i] = 0; stream[9] = OVER_LO;
  ne_sess.ws = &ws;
  s_pos = 0; s_avail = 14; rd_calls = close_calls = 0;
  ws_events = 0;
  ssize_t r = coap_ws_read(&ne_sess, data, DATALEN);
  VERIF_ASSERT(r == 0, "S3o an oversize frame delivers nothing");
  VERIF_ASSERT(close_calls == 1 && ws.close_reason == 1009, "S3o a frame larger than the receive buffer closes the connection with status 1009 (message too big)");
  VERIF_ASSERT(ws_events == 1 && ws_last_event == COAP_EVENT_WS_PACKET_SIZE, "S3o the application is told once that a too-large frame arrived");
  VERIF_ASSERT(rd_calls == 1, "S3o no payload byte of an oversize frame is requested from the transport");
  for (i = 0; i < DATALEN + 8; i++) VERIF_ASSERT(data[i] == 0xEE, "S3o the caller's buffer is untouched");
  VERIF_REACH("S3o end");
}
