/* C05 - stream transports deliver the same messages however the byte stream is cut (DESIGN 4.5).
 * Inductive step, executed on the real reader: for a message shape and every (k, c):
 *     read(k bytes) ; read(c bytes)   ==   read(k + c bytes)
 * (same messages handed to the protocol layer, same reader state afterwards). By induction over the number of reads,
 * every segmentation of the stream behaves like the single read, which in turn is compared with the reference decoder.
 * The bytes that steer copy sizes (first byte, extended length, token-length extension) are concrete per job; all other
 * bytes are symbolic. */
#include "common/netenv.h"
#include "ref/ref_codec.h"

#ifndef T
#error job must define the shape
#endif
#define STREAM_LEN (T + 2)          /* message 1 followed by a complete 2-byte message "00 <code>" */
#ifndef KK
#define KK 0
#endif
#ifndef CC
#define CC 1
#endif

static uint8_t stream[STREAM_LEN + 4];

/* ---- layer below: hands out the next chunk -------------------------------------------------------------- */
static size_t rd_pos, rd_released, rd_step[2];
static int rd_call;
static ssize_t
h_read(coap_session_t *session, uint8_t *data, size_t datalen) {
  (void)session;
  /* bytes released by the transport so far but not yet read; a read returns at most the caller's buffer size, the
   * rest stays queued (as a socket does) and is returned by the next read */
  size_t n = rd_released - rd_pos;
  rd_call++;
  if (n > datalen) n = datalen;
  if (n) memcpy(data, stream + rd_pos, n);
  rd_pos += n;
  return (ssize_t)n;
}

/* ---- protocol layer: records what it is handed ------------------------------------------------------------- */
#define MAXD 3
static int d_count;
static size_t d_len[MAXD];
static uint8_t d_bytes[MAXD][T + 8];
static int disc_count;

void
coap_dispatch(coap_context_t *context, coap_session_t *session, coap_pdu_t *pdu) {
  (void)context; (void)session;
  if (d_count < MAXD) {
    size_t n = pdu->hdr_size + pdu->used_size;
    d_len[d_count] = n;
    {
      /* byte loop, not memcpy: CBMC 6.11 loses a memcpy into a row of a 2-D array (observed: bytes stay 0) */
      size_t i;
      const uint8_t *w = pdu->token - pdu->hdr_size;
      for (i = 0; i < T + 8; i++)
        if (i < n) d_bytes[d_count][i] = w[i];
    }
    VERIF_ASSERT(pdu->used_size <= pdu->alloc_size, "dispatch: PDU consistent");
#ifdef DBG
    if (d_count == 0) {
      __CPROVER_assert((pdu->token - pdu->hdr_size)[1] == stream[1], "DBG hdr byte 1 in pdu");
      __CPROVER_assert((pdu->token - pdu->hdr_size)[3] == stream[3], "DBG byte 3 in pdu");
      __CPROVER_assert(d_bytes[0][3] == stream[3], "DBG byte 3 in d_bytes");
    }
#endif
  }
  d_count++;
}
void
coap_session_disconnected_lkd(coap_session_t *session, coap_nack_reason_t reason) {
  (void)reason;
  disc_count++;
  /* what the real function does to the reader state */
  if (session->partial_pdu) { coap_delete_pdu(session->partial_pdu); session->partial_pdu = NULL; }
  session->partial_read = 0;
}

typedef struct {
  int d_count, disc;
  size_t d_len[MAXD];
  uint8_t d_bytes[MAXD][T + 8];
  size_t partial_read;
  int has_pdu;
  size_t pdu_used, pdu_hdr;
  uint8_t hdr[8];
  uint8_t body[T + 8];
} snap_t;

static void
run(size_t c1, size_t c2, snap_t *out) {
  ne_init();
  ne_sess.proto = COAP_PROTO_TCP;
  ne_sess.type = COAP_SESSION_TYPE_SERVER;
  ne_sess.sock.lfunc[COAP_LAYER_SESSION].l_read = h_read;
  ne_sess.mtu = 1152;
#ifdef OVERSIZE
  /* largest receive size an application can configure (coap_context_set_csm_max_message_size): only the library's
   * own COAP_DEFAULT_MAX_PDU_RX_SIZE check stands between a declared length and an allocation */
  ne_sess.csm_rcv_mtu = COAP_DEFAULT_MAX_PDU_RX_SIZE;
#endif
  rd_pos = 0; rd_call = 0; rd_released = 0;
  if (c1 == 0) { c1 = c2; c2 = 0; }
  d_count = 0; disc_count = 0;
  if (c1) { rd_released += c1; coap_read_session(&ne_ctx, &ne_sess, 1000); }
  if (c2 && !disc_count) { rd_released += c2; coap_read_session(&ne_ctx, &ne_sess, 1001); }
  VERIF_ASSERT(disc_count || rd_pos == rd_released, "S1 the reader consumes everything the transport has (reads again after a full buffer)");
  out->d_count = d_count;
  out->disc = disc_count;
  {
    size_t i, j;
    for (j = 0; j < MAXD; j++) {
      out->d_len[j] = d_len[j];
      for (i = 0; i < T + 8; i++) out->d_bytes[j][i] = d_bytes[j][i];
    }
  }
  out->partial_read = ne_sess.partial_read;
  out->has_pdu = ne_sess.partial_pdu != NULL;
  memset(out->hdr, 0, sizeof(out->hdr));
  memset(out->body, 0, sizeof(out->body));
  out->pdu_used = out->pdu_hdr = 0;
  if (ne_sess.partial_pdu) {
    coap_pdu_t *p = ne_sess.partial_pdu;
    out->pdu_used = p->used_size;
    out->pdu_hdr = p->hdr_size;
    /* bytes received so far live at token - hdr_size .. + partial_read */
    size_t i;
    for (i = 0; i < T + 8; i++)
      if (i < ne_sess.partial_read) out->body[i] = (p->token - p->hdr_size)[i];
  } else {
    size_t i;
    for (i = 0; i < 8; i++)
      if (i < ne_sess.partial_read) out->hdr[i] = ne_sess.read_header[i];
  }
}

static void
fill_stream(void) {
  VERIF_IN_SETBUF(stream, STREAM_LEN);
  /* size-steering bytes of message 1 */
  stream[0] = FIRST;
#ifdef EXT0
  stream[1] = EXT0;
#endif
#ifdef EXT1
  stream[2] = EXT1;
#endif
#ifdef EXT2
  stream[3] = EXT2;
#endif
#ifdef EXT3
  stream[4] = EXT3;
#endif
#ifdef TEXT0
  stream[H] = TEXT0;
#endif
#ifdef TEXT1
  stream[H + 1] = TEXT1;
#endif
#ifdef MARKER_AT
  /* long bodies: the first body byte is the payload marker, so the (symbolic) rest is payload and parsing the
   * message does not branch on every byte */
  stream[MARKER_AT] = 0xFF;
#endif
  /* message 2: Len 0, TKL 0, symbolic code */
  stream[T] = 0x00;
}

VERIF_HARNESS(c05_s1_tcp_step) {
  static snap_t a, b;
  fill_stream();
  run(KK, CC, &a);            /* two reads */
  run(KK + CC, 0, &b);        /* one read of the same bytes */
  VERIF_ASSERT(a.disc == b.disc, "S1 session closed in one segmentation iff in the other");
  VERIF_ASSERT(a.d_count == b.d_count, "S1 same number of messages handed to the protocol layer");
  {
    int i;
    for (i = 0; i < MAXD; i++)
      if (i < a.d_count && i < b.d_count) {
        VERIF_ASSERT(a.d_len[i] == b.d_len[i], "S1 same message sizes in the same order");
        VERIF_IN(uint16_t, di);
        VERIF_ASSUME(di < T + 8);
        if (di < a.d_len[i]) VERIF_ASSERT(a.d_bytes[i][di] == b.d_bytes[i][di], "S1 same message bytes");
      }
  }
  if (!a.disc) {
    VERIF_ASSERT(a.partial_read == b.partial_read && a.has_pdu == b.has_pdu, "S1 same reader position afterwards (no byte forgotten or duplicated)");
    VERIF_ASSERT(a.pdu_used == b.pdu_used && a.pdu_hdr == b.pdu_hdr, "S1 same pending message size");
    VERIF_IN(uint16_t, si);
    VERIF_ASSUME(si < T + 8);
    VERIF_ASSERT(a.body[si] == b.body[si], "S1 same buffered message bytes");
    if (si < 8) VERIF_ASSERT(a.hdr[si] == b.hdr[si], "S1 same buffered header bytes");
  }
  /* the single read against the reference: messages wholly inside the bytes read are delivered iff well-formed,
   * byte-identical to the stream slice */
  {
    size_t got = KK + CC;
    static ref_msg_t m;
    int exp = 0;
    int ok1 = ref_decode(REF_TCP, stream, T, &m);
#ifndef OVERSIZE
    if (got >= T && ok1) {
      VERIF_ASSERT(b.d_count >= 1 && b.d_len[0] == T, "S1 first message delivered with its exact size");
      VERIF_IN(uint16_t, ri);
      VERIF_ASSUME(ri < T);
      if (b.d_count >= 1) VERIF_ASSERT(b.d_bytes[0][ri] == stream[ri], "S1 delivered bytes equal the stream slice");
      exp++;
    }
    if (got >= T + 2) {
      int ok2 = ref_decode(REF_TCP, stream + T, 2, &m);
      if (ok2) exp++;
    }
    VERIF_ASSERT(b.d_count == exp && !b.disc, "S1 exactly the well-formed messages that ended inside the bytes read are delivered");
    if (got < T) VERIF_ASSERT(b.partial_read == got, "S1 reader holds exactly the bytes received of the unfinished message");
#else
    /* declared size above the configured maximum: nothing buffered, nothing delivered, session closed */
    (void)ok1; (void)exp;
    if (got >= H + TE) VERIF_ASSERT(b.disc == 1 && b.d_count == 0 && !b.has_pdu, "S2 oversize declaration closes the session instead of buffering");
    else VERIF_ASSERT(b.disc == 0 && b.d_count == 0, "S2 nothing happens before the length is complete");
#endif
  }
  VERIF_REACH("S1 end");
}
