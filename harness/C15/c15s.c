/* C15 sender side - "never protects two messages with the same partial IV, also across restarts that resume from the sequence
 * number last handed to the save callback" (DESIGN 4.15). Inductive argument over the real code:
 *   P  = the number in stable storage (start_seq_num at first, then the last value handed to save_seq_num_func)
 *   Inv(seq, next_seq, P) = P >= seq  and  (next_seq == P  or  (P == seq and next_seq <= seq < next_seq + ssn_freq))
 *   (the second disjunct is the state right after context creation; a first version without "< next_seq + ssn_freq" was too weak:
 *    CBMC returned an unreachable pre-state, the invariant was strengthened - not a finding)
 * S2-derive: oscore_derive_ctx() establishes Inv for every start_seq_num (ssn_freq concrete per job).
 * S2-step  : one coap_oscore_new_pdu_encrypted_lkd() request from EVERY state satisfying Inv (any ssn_freq >= 1), cut right after
 *            the sequence-number bookkeeping (the first function called afterwards, oscore_encode_option_value, is the cut stub):
 *            the partial IV used is the old seq, it is below the new P, and Inv holds again.
 * Inv gives: every partial IV used so far < P, and a restart resumes at P: no partial IV is used twice. */
#include "coap3/coap_libcoap_build.h"
#include "common/verif.h"
#include <stdlib.h>

static uint64_t st_saved;
static int st_save_calls;
static int
save_cb(uint64_t v, void *param) {
  (void)param;
  st_saved = v;
  st_save_calls++;
  return 1;
}
static int
inv(uint64_t seq, uint64_t next, uint64_t p, uint64_t freq) {
  return p >= seq && (next == p || (p == seq && next <= seq && seq - next < freq));
}

/* static in oscore_context.c (goto-cc --export-file-local-symbols name); formatting is not the subject */
void __CPROVER_file_local_oscore_context_c_oscore_log_context(oscore_ctx_t *osc_ctx, const char *heading) { (void)osc_ctx; (void)heading; }
void coap_show_pdu(coap_log_t level, const coap_pdu_t *pdu) { (void)level; (void)pdu; }

#ifndef FREQ
#define FREQ 10
#endif
VERIF_HARNESS(c15_s2_derive) {
  static coap_context_t ctx;
  static coap_oscore_conf_t conf;
  static const uint8_t sid[1] = {1};
  static coap_bin_const_t sender_id = {1, sid};
  VERIF_IN(uint64_t, start);
  VERIF_ASSUME(start < (1ull << 40));
  conf.sender_id = &sender_id;
  conf.ssn_freq = FREQ;
  conf.start_seq_num = start;
  conf.save_seq_num_func = save_cb;
  st_saved = start;                 /* what the application has in stable storage when it calls coap_new_oscore_conf() */
  oscore_ctx_t *osc = oscore_derive_ctx(&ctx, &conf);
  VERIF_ASSUME(osc != NULL);
  VERIF_ASSERT(osc->sender_context->seq == start, "S2 the context starts at the sequence number the application supplied");
  VERIF_ASSERT(osc->ssn_freq >= 1, "S2 the save interval in use is at least 1");
  VERIF_ASSERT(st_save_calls == 0 || st_saved >= start, "S2 a value handed to the save callback at start is not below the start value");
  VERIF_ASSERT(inv(osc->sender_context->seq, osc->sender_context->next_seq, st_saved, osc->ssn_freq),
               "S2 after context creation the first protected message triggers the save callback (next_seq <= start_seq_num)");
  VERIF_REACH("S2 derive end");
}

/* ---- the cut: first function called after the sequence-number bookkeeping of a request ---------------------------------- */
static int cut_reached;
static uint64_t pre_seq, pre_p, st_freq;
static oscore_sender_ctx_t snd;
size_t
oscore_encode_option_value(uint8_t *option_buffer, size_t option_buf_len, cose_encrypt0_t *cose, uint8_t group, uint8_t appendix_b_2) {
  (void)option_buffer; (void)option_buf_len; (void)group; (void)appendix_b_2;
  uint64_t piv = 0;
  size_t i;
  cut_reached = 1;
  VERIF_ASSERT(cose->partial_iv.length >= 1 && cose->partial_iv.length <= 5, "S2 the partial IV of a request is 1..5 bytes");
  for (i = 0; i < 5; i++)
    if (i < cose->partial_iv.length) piv = (piv << 8) | cose->partial_iv.s[i];
  VERIF_ASSERT(piv == pre_seq, "S2 the message is protected with the sender sequence number current before the call");
  VERIF_ASSERT(snd.seq == pre_seq + 1, "S2 the sender sequence number advances by exactly one per protected message");
  VERIF_ASSERT(piv < st_saved, "S2 the partial IV in use is below the number in stable storage (a restart cannot reuse it)");
  VERIF_ASSERT(st_saved >= pre_p, "S2 the number in stable storage never decreases");
  VERIF_ASSERT(inv(snd.seq, snd.next_seq, st_saved, st_freq), "S2 the invariant (stable storage is ahead of every partial IV used) is preserved");
#ifdef WITNESS
  if (st_save_calls == 1) VERIF_REACH("S2 step with a save");
#endif
#ifdef VERIF_REPLAY
  exit(0);
#else
  __CPROVER_assume(0);   /* end of the encoded stretch: AAD, encryption and the outer PDU are not this obligation's subject */
#endif
  return 0;
}

VERIF_HARNESS(c15_s2_step) {
  static coap_context_t ctx;
  static coap_session_t sess;
  static oscore_recipient_ctx_t rcp;
  static oscore_ctx_t osc;
  static const uint8_t sid[1] = {1}, rid[1] = {2}, civ[13] = {1, 2, 3, 4, 5, 6, 7, 8, 9, 10, 11, 12, 13};
  static coap_bin_const_t sender_id = {1, sid}, recipient_id = {1, rid}, common_iv = {13, civ};
  VERIF_IN(uint64_t, seq);
  VERIF_IN(uint64_t, next);
  VERIF_IN(uint64_t, p);
  VERIF_IN(uint32_t, freq);
  VERIF_IN_BUF(tok, 2);
  VERIF_ASSUME(seq < (1ull << 40) && next < (1ull << 41) && p < (1ull << 41));
  VERIF_ASSUME(freq >= 1 && freq <= (1u << 20));
  VERIF_ASSUME(inv(seq, next, p, freq));
  st_freq = freq;
  sess.context = &ctx;
  sess.proto = COAP_PROTO_UDP;
  sess.mtu = 1152;
  sess.recipient_ctx = &rcp;
  rcp.osc_ctx = &osc;
  rcp.recipient_id = &recipient_id;
  osc.sender_context = &snd;
  osc.recipient_chain = &rcp;
  osc.common_iv = &common_iv;
  osc.aead_alg = COSE_ALGORITHM_AES_CCM_16_64_128;
  osc.ssn_freq = freq;
  osc.save_seq_num_func = save_cb;
  snd.sender_id = &sender_id;
  snd.seq = seq;
  snd.next_seq = next;
  st_saved = p;
  pre_seq = seq; pre_p = p;
  coap_pdu_t *pdu = coap_pdu_init(COAP_MESSAGE_CON, COAP_REQUEST_CODE_GET, 0x1234, 64);
  VERIF_ASSUME(pdu != NULL);
  coap_add_token(pdu, 2, tok);
  coap_pdu_t *out = coap_oscore_new_pdu_encrypted_lkd(&sess, pdu, NULL, OSCORE_SEND_NO_IV);
  /* only reached when the function gave up before the cut (sequence number space exhausted) */
  VERIF_ASSERT(out == NULL && !cut_reached, "S2 a request that is not protected is refused");
  VERIF_ASSERT(seq + 1 >= OSCORE_SEQ_MAX, "S2 a request is refused before the option is built only when the sequence number space is exhausted");
  VERIF_ASSERT(st_saved >= p, "S2 the number in stable storage never decreases");
}
