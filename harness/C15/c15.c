/* C15 - OSCORE replay window: never accept a sequence number twice; forgeries leave no trace (DESIGN 4.15) */
#include "coap3/coap_libcoap_build.h"
#include "common/verif.h"
#include "oscore/oscore.h"
#include "oscore/oscore_context.h"
#include "oscore/oscore_cose.h"

/* abstraction: is sequence number w marked as seen by the window state? */
static int
seen(const oscore_recipient_ctx_t *c, uint64_t w) {
  if (c->initial_state) return 0;
  if (w > c->last_seq) return 0;
  if (c->last_seq - w > 63) return 0;    /* older than the window can represent */
  return (int)((c->sliding_window >> (c->last_seq - w)) & 1);
}

static uint64_t
piv_encode(uint64_t v, uint8_t *buf, size_t *len) {
  /* minimal big-endian encoding, 1..5 bytes (RFC 8613 5.2: 0 is encoded as one zero byte) */
  size_t n = 1, i;
  uint64_t t = v;
  while (t > 0xff && n < 8) { t >>= 8; n++; }
  for (i = 0; i < n; i++) buf[i] = (uint8_t)(v >> (8 * (n - 1 - i)));
  *len = n;
  return v;
}

static oscore_ctx_t osc;
static oscore_recipient_ctx_t rc;
static cose_encrypt0_t cose;
static uint8_t pivbuf[8];

static uint8_t
deliver(uint64_t seq) {
  size_t n;
  piv_encode(seq, pivbuf, &n);
  cose.partial_iv.s = pivbuf;
  cose.partial_iv.length = n;
  return oscore_validate_sender_seq(&rc, &cose);
}

/* ---- S1: one validate step from an arbitrary window state -------------------------------------------------- */
VERIF_HARNESS(c15_s1_window_step) {
  VERIF_IN(uint64_t, last);
  VERIF_IN(uint64_t, window);
  VERIF_IN(uint8_t, initial);
  VERIF_IN(uint32_t, wsize);
  VERIF_IN(uint64_t, seq);
  VERIF_IN(uint64_t, w);      /* universally quantified witness */
  VERIF_ASSUME(initial <= 1);
  VERIF_ASSUME(wsize >= 1 && wsize <= 63);
  /* sequence numbers are 0..2^40-2 (the library refuses OSCORE_SEQ_MAX = 2^40-1 and above) */
  VERIF_ASSUME(last < (((uint64_t)1 << 40) - 1) && seq < (((uint64_t)1 << 40) - 1) && w < ((uint64_t)1 << 40));
  /* representation invariant: once armed, the highest number is itself marked */
  VERIF_ASSUME(initial == 1 ? (window == 0 && last == 0) : (window & 1) == 1);
#ifdef KF_EXCLUDE_F_C15_W
  /* complement of known finding: exclude nothing here (placeholder) */
#endif
  memset(&osc, 0, sizeof(osc));
  memset(&rc, 0, sizeof(rc));
  osc.replay_window_size = wsize;
  rc.osc_ctx = &osc;
  rc.last_seq = last;
  rc.sliding_window = window;
  rc.initial_state = initial;
  oscore_recipient_ctx_t pre = rc;
  int w_pre = seen(&pre, w), s_pre = seen(&pre, seq);
  uint8_t ok = deliver(seq);
  if (ok) {
    VERIF_ASSERT(!s_pre, "S1 a sequence number already marked as seen is never accepted");
    VERIF_ASSERT(seen(&rc, seq), "S1 an accepted sequence number is marked as seen afterwards");
    VERIF_ASSERT(rc.initial_state == 0, "S1 window is armed after the first acceptance");
    if (w_pre && rc.last_seq >= w && rc.last_seq - w <= 63)
      VERIF_ASSERT(seen(&rc, w), "S1 numbers seen before stay seen while inside the 64-entry window");
    if (seen(&rc, w)) VERIF_ASSERT(w_pre || w == seq, "S1 no number is marked as seen that was not received");
    if (!pre.initial_state && seq < pre.last_seq)
      VERIF_ASSERT(pre.last_seq - seq <= 63, "S1 a number older than the window can represent is rejected");
    VERIF_ASSERT(rc.last_seq == (pre.initial_state || seq > pre.last_seq ? seq : pre.last_seq), "S1 last_seq is the highest accepted number");
    /* authentication failed after all: roll back must restore the exact pre-state */
    oscore_roll_back_seq(&rc);
    VERIF_ASSERT(rc.last_seq == pre.last_seq && rc.sliding_window == pre.sliding_window && rc.initial_state == pre.initial_state,
                 "S1 roll-back after a failed authentication restores the window state exactly");
  } else {
    VERIF_ASSERT(rc.last_seq == pre.last_seq && rc.sliding_window == pre.sliding_window && rc.initial_state == pre.initial_state,
                 "S1 a rejected message leaves the window state unchanged");
    /* a fresh number inside the configured window must not be rejected */
    if (!s_pre && (pre.initial_state || seq > pre.last_seq || pre.last_seq - seq < wsize))
      VERIF_ASSERT(0, "S1 a never-seen number inside the configured replay window is accepted");
  }
#ifdef WITNESS
  if (ok && !pre.initial_state && seq < pre.last_seq && pre.last_seq - seq > 5) VERIF_REACH("S1 accepted an older in-window number");
#endif
}

/* ---- B1: histories of K deliveries in the order the call sites use the API --------------------------------- */
#ifndef KDEL
#define KDEL 3
#endif
VERIF_HARNESS(c15_b1_history) {
  VERIF_IN(uint32_t, wsize);
  VERIF_ASSUME(wsize >= 1 && wsize <= 63);
  memset(&osc, 0, sizeof(osc));
  memset(&rc, 0, sizeof(rc));
  osc.replay_window_size = wsize;
  rc.osc_ctx = &osc;
  rc.initial_state = 1;        /* as oscore_add_recipient() leaves it */
  uint64_t accepted[KDEL];
  unsigned na = 0, i, k;
  for (k = 0; k < KDEL; k++) {
    VERIF_IN(uint64_t, seq);
    VERIF_IN(_Bool, genuine);      /* does the AEAD tag verify? forgeries may claim any partial IV */
    VERIF_ASSUME(seq < (((uint64_t)1 << 40) - 1));
    oscore_recipient_ctx_t before = rc;
    uint8_t ok = deliver(seq);
    if (ok && !genuine) {
      oscore_roll_back_seq(&rc);
      ok = 0;
    }
    if (!genuine)
      VERIF_ASSERT(rc.last_seq == before.last_seq && rc.sliding_window == before.sliding_window && rc.initial_state == before.initial_state,
                   "B1 a forged message leaves sequence state and window exactly as before");
    if (ok) {
      for (i = 0; i < KDEL; i++)
        if (i < na) VERIF_ASSERT(accepted[i] != seq, "B1 no sequence number is accepted twice in any arrival order");
      accepted[na++] = seq;
    }
  }
#ifdef WITNESS
  if (na == KDEL) VERIF_REACH("B1 all deliveries accepted");
#endif
}
