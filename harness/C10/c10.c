/* C10 - server answers each request datagram once, with the protocol-prescribed code (DESIGN 4.10).
 * One request of an enumerated, concrete layout (symbolic mid, token and value bytes) through the real coap_dispatch ->
 * handle_request -> handler -> coap_send_internal -> l_write. uthash's lookup is modelled (trusted third-party
 * macros): coap_get_resource_from_uri_path_lkd returns the known resource iff the path string equals its key. */
#include "common/netenv.h"
#include "common/unreach.h"

#define T_CON 0
#define T_NON 1
#define T_ACK 2
#define T_RST 3
#ifndef QTYPE
#define QTYPE T_CON
#endif
#ifndef METHOD
#define METHOD 1            /* GET */
#endif
#ifndef PATH
#define PATH 1              /* 0 none, 1 "a" (known), 2 "b" (unknown), 3 ".well-known"/"core" */
#endif
#ifndef EXTRA
#define EXTRA 0
#endif
/* EXTRA option added to the request */
#define X_NONE 0
#define X_UNKNOWN_CRIT 1    /* option 9 is OSCORE; use 65001 (odd = critical, unknown) */
#define X_IF_NONE_MATCH 2
#define X_CONTENT_FORMAT 3
#define X_PROXY_URI 4
#define X_HOP_LIMIT_1 5
#define X_HOP_LIMIT_0 6
#define X_HOP_LIMIT_N 7     /* symbolic 2..255 */
#define X_REPEAT_CF 8       /* Content-Format twice */
#define X_UNKNOWN_ELECTIVE 9
#define X_NORESPONSE 10     /* symbolic value */
#define X_PROXY_SCHEME 11   /* with Uri-Host */
#define X_ACCEPT_BLOCK2M 12 /* Accept (empty) + Block2 NUM=0 M=1 SZX=0: the M bit is cleared in place and the option scan restarts */
#ifndef TABLE
#define TABLE 0             /* bit0: resource "a" has no handler for METHOD; bit1: unknown-resource handler registered; bit2: proxy resource */
#endif
#ifndef EXPECT
#define EXPECT 205          /* expected reply code (decimal c.dd as c*100+dd), 0 = no reply, -1 = RST, 1 = empty ACK only */
#endif
#ifndef HCODE
#define HCODE 0x45          /* what the handler sets */
#endif

static coap_resource_t *res_a, *res_unknown, *res_proxy;
static int h_calls, h_unknown_calls, h_proxy_calls;
static const coap_resource_t *h_res;
static uint8_t h_query_seen;
static coap_mid_t h_req_mid;

static void
h_handler(coap_resource_t *resource, coap_session_t *session, const coap_pdu_t *request, const coap_string_t *query, coap_pdu_t *response) {
  (void)session; (void)query;
  NE_CALLBACK_ENTRY("request handler");
  if (resource == res_unknown) h_unknown_calls++;
  else if (resource == res_proxy) h_proxy_calls++;
  else h_calls++;
  h_res = resource;
  h_req_mid = request->mid;
  response->code = HCODE;
}

/* model of RESOURCES_FIND (uthash): the element whose key bytes equal the argument */
coap_resource_t *
coap_get_resource_from_uri_path_lkd(coap_context_t *context, coap_str_const_t *uri_path) {
  (void)context;
#if TABLE & 8
  /* the known resource is registered under the two-segment path "a/b" */
  if (res_a && uri_path->length == 3 && uri_path->s[0] == 'a' && uri_path->s[1] == '/' && uri_path->s[2] == 'b') return res_a;
#else
  if (res_a && uri_path->length == 1 && uri_path->s[0] == 'a') return res_a;
#endif
  return NULL;
}

static coap_str_const_t path_a = {1, (const uint8_t *)"a"};

static int
reply_code_dec(uint8_t c) {
  return (c >> 5) * 100 + (c & 0x1f);
}

VERIF_HARNESS(c10_s3_request) {
  ne_init();
  ne_sess.type = COAP_SESSION_TYPE_SERVER;
  VERIF_IN(uint16_t, mid);
  VERIF_IN_BUF(tok, 4);
  VERIF_IN_BUF(val, 4);
  /* Hop-Limit value: concrete per job (its decrement goes through coap_update_option, i.e. a memmove whose size
   * would otherwise be symbolic) */
#ifndef HOP
#define HOP 2
#endif
  uint8_t hop = HOP;
  /* the No-Response value steers which PDU is sent: concrete per job (the decision function itself is decided for
   * every value in L1) */
#ifndef NORES
#define NORES 0
#endif
  const uint8_t nores = NORES;
  res_a = coap_resource_init(&path_a, 0);
  if (!(TABLE & 1)) coap_register_request_handler(res_a, (coap_request_t)METHOD, h_handler);
  else coap_register_request_handler(res_a, (coap_request_t)(METHOD == 1 ? 2 : 1), h_handler);
  res_unknown = NULL; res_proxy = NULL;
  if (TABLE & 2) {
    res_unknown = coap_resource_unknown_init(h_handler);          /* PUT */
    coap_register_request_handler(res_unknown, COAP_REQUEST_GET, h_handler);
    ne_ctx.unknown_resource = res_unknown;
  }
  if (TABLE & 4) {
    res_proxy = coap_resource_proxy_uri_init(h_handler, 0, NULL);
    ne_ctx.proxy_uri_resource = res_proxy;
  }
  h_calls = h_unknown_calls = h_proxy_calls = 0;
  /* ---- the request ---- */
  coap_pdu_t *req = coap_pdu_init((coap_pdu_type_t)QTYPE, METHOD, mid, 256);
  coap_add_token(req, 4, tok);
#if EXTRA == X_PROXY_SCHEME
  coap_add_option(req, COAP_OPTION_URI_HOST, 1, (const uint8_t *)"h");
#endif
#if EXTRA == X_IF_NONE_MATCH
  coap_add_option(req, COAP_OPTION_IF_NONE_MATCH, 0, NULL);
#endif
#if PATH == 1
  coap_add_option(req, COAP_OPTION_URI_PATH, 1, (const uint8_t *)"a");
#elif PATH == 2
  coap_add_option(req, COAP_OPTION_URI_PATH, 1, (const uint8_t *)"b");
#elif PATH == 4
  coap_add_option(req, COAP_OPTION_URI_PATH, 3, (const uint8_t *)"a/b");      /* ONE segment containing a slash */
#elif PATH == 5
  coap_add_option(req, COAP_OPTION_URI_PATH, 1, (const uint8_t *)"a");
  coap_add_option(req, COAP_OPTION_URI_PATH, 1, (const uint8_t *)"b");
#elif PATH == 3
  coap_add_option(req, COAP_OPTION_URI_PATH, 11, (const uint8_t *)".well-known");
  coap_add_option(req, COAP_OPTION_URI_PATH, 4, (const uint8_t *)"core");
#endif
#if EXTRA == X_CONTENT_FORMAT
  coap_add_option(req, COAP_OPTION_CONTENT_FORMAT, 1, val);
#elif EXTRA == X_REPEAT_CF
  coap_add_option(req, COAP_OPTION_CONTENT_FORMAT, 1, val);
  /* the receiving side sees what is on the wire: append a second Content-Format (delta 0, length 1) below the
   * building API, which would refuse it */
  req->token[req->used_size++] = 0x01;
  req->token[req->used_size++] = val[1];
#elif EXTRA == X_HOP_LIMIT_1
  { uint8_t b = 1; coap_add_option(req, COAP_OPTION_HOP_LIMIT, 1, &b); }
#elif EXTRA == X_HOP_LIMIT_0
  { uint8_t b = 0; coap_add_option(req, COAP_OPTION_HOP_LIMIT, 1, &b); }
#elif EXTRA == X_HOP_LIMIT_N
  coap_add_option(req, COAP_OPTION_HOP_LIMIT, 1, &hop);
#elif EXTRA == X_PROXY_URI
  req->code = METHOD; /* unchanged */
  coap_add_option_internal(req, COAP_OPTION_PROXY_URI, 8, (const uint8_t *)"coap://h");
#elif EXTRA == X_PROXY_SCHEME
  coap_add_option_internal(req, COAP_OPTION_PROXY_SCHEME, 4, (const uint8_t *)"coap");
#elif EXTRA == X_NORESPONSE
  coap_add_option(req, COAP_OPTION_NORESPONSE, 1, &nores);
#elif EXTRA == X_ACCEPT_BLOCK2M
  coap_add_option(req, COAP_OPTION_ACCEPT, 0, NULL);
  { uint8_t b = 0x08; coap_add_option(req, COAP_OPTION_BLOCK2, 1, &b); }
#elif EXTRA == X_UNKNOWN_CRIT
  coap_add_option(req, 65001, 2, val);
#elif EXTRA == X_UNKNOWN_ELECTIVE
  coap_add_option(req, 65002, 2, val);
#endif
  coap_pdu_encode_header(req, COAP_PROTO_UDP);
  coap_dispatch(&ne_ctx, &ne_sess, req);
#ifdef VERIF_REPLAY
  fprintf(stderr, "REPLAY-DBG: tx=%d len=%zu first=%02x %02x %02x %02x handler calls=%d/%d/%d\n", ne_tx_count, ne_tx_len[0],
          ne_tx_first[0][0], ne_tx_first[0][1], ne_tx_first[0][2], ne_tx_first[0][3], h_calls, h_unknown_calls, h_proxy_calls);
#endif
  /* ---- obligations ---- */
  VERIF_ASSERT(ne_tx_count <= 1, "C10 at most one direct reply per request datagram");
  VERIF_ASSERT(h_calls + h_unknown_calls + h_proxy_calls <= 1, "C10 at most one handler invocation per request datagram");
  if (ne_tx_count == 1) {
    uint8_t rtype = (ne_tx_first[0][0] >> 4) & 3, rcode = ne_tx_first[0][1];
    uint16_t rmid = (uint16_t)((ne_tx_first[0][2] << 8) | ne_tx_first[0][3]);
    unsigned rtkl = ne_tx_first[0][0] & 15;
#if QTYPE == T_CON
    VERIF_ASSERT((rtype == COAP_MESSAGE_ACK || rtype == COAP_MESSAGE_RST) && rmid == mid, "C10 a Confirmable request is acknowledged (or reset) with its message id");
#else
    VERIF_ASSERT(rtype != COAP_MESSAGE_ACK, "C10 a Non-confirmable request is never answered with ACK");
#endif
    if (rcode != 0) {
      VERIF_ASSERT(rtkl == 4 && ne_tx_len[0] >= 8, "C10 a non-empty reply echoes the request's token length");
      VERIF_ASSERT(memcmp(&ne_tx_first[0][4], tok, 4) == 0, "C10 a non-empty reply echoes the request's token");
    } else {
      VERIF_ASSERT(ne_tx_len[0] == 4, "C10 an empty reply is exactly the 4-byte header");
    }
#if EXPECT > 1
    {
      int nr_drop = 0;
#if EXTRA == X_NORESPONSE
      nr_drop = ((1u << ((EXPECT / 100) - 1)) & nores) != 0;
#endif
      if (!nr_drop) VERIF_ASSERT(reply_code_dec(rcode) == EXPECT, "C10 reply code follows the protocol table");
      else VERIF_ASSERT(rcode == 0 && rtype == COAP_MESSAGE_ACK && QTYPE == T_CON, "C10 a suppressed (No-Response) reply to a CON request degrades to an empty ACK");
    }
#elif EXPECT == -1
    VERIF_ASSERT(rtype == COAP_MESSAGE_RST && rcode == 0, "C10 the reply is a Reset");
#elif EXPECT == 1
    VERIF_ASSERT(rtype == COAP_MESSAGE_ACK && rcode == 0, "C10 the reply is an empty ACK");
#elif EXPECT == 0
    VERIF_ASSERT(0, "C10 no reply is sent for this request");
#endif
  } else {
#if EXPECT != 0
#if EXTRA == X_NORESPONSE && QTYPE == T_NON
    VERIF_ASSERT(((1u << ((EXPECT / 100) - 1)) & nores) != 0, "C10 a reply to a NON request is dropped only if No-Response asks for it");
#else
    VERIF_ASSERT(0, "C10 a reply is sent for this request");
#endif
#endif
  }
#ifdef EXPECT_HANDLER
  VERIF_ASSERT(h_calls == (EXPECT_HANDLER == 1) && h_unknown_calls == (EXPECT_HANDLER == 2) && h_proxy_calls == (EXPECT_HANDLER == 3),
               "C10 exactly the handler registered for the path and method runs, once; no handler for protocol-level errors");
  if (EXPECT_HANDLER) VERIF_ASSERT(h_req_mid == mid, "C10 the handler sees this request");
#endif
  VERIF_REACH("C10 end");
}

/* ---- L1: decision functions, exhaustive ----------------------------------------------------------------------- */
int __CPROVER_file_local_coap_net_c_no_response(coap_pdu_t *request, coap_pdu_t *response, coap_session_t *session, coap_resource_t *resource);
VERIF_HARNESS(c10_l1_no_response) {
  ne_init();
  VERIF_IN(uint8_t, nores);
  VERIF_IN(uint8_t, rcode);
  VERIF_IN(uint8_t, has_opt);
  VERIF_IN(uint8_t, rtype_ack);
  VERIF_ASSUME(has_opt <= 1 && rtype_ack <= 1);
  coap_pdu_t *req = coap_pdu_init(rtype_ack ? COAP_MESSAGE_CON : COAP_MESSAGE_NON, 1, 7, 64);
#ifdef WITH_NORESPONSE
  coap_add_option(req, COAP_OPTION_NORESPONSE, 1, &nores);
#endif
  coap_pdu_t *resp = coap_pdu_init(rtype_ack ? COAP_MESSAGE_ACK : COAP_MESSAGE_NON, rcode, 7, 64);
  int r = __CPROVER_file_local_coap_net_c_no_response(req, resp, &ne_sess, NULL);
  unsigned cls = rcode >> 5;
#ifdef WITH_NORESPONSE
  if (cls >= 1 && cls <= 5) {
    int drop = ((1u << (cls - 1)) & nores) != 0;      /* RFC 7967 section 2 */
    if (!drop) VERIF_ASSERT(r == 2 /* SEND */ && resp->code == rcode, "L1 No-Response: a class the client is interested in is sent unchanged");
    else if (rtype_ack) VERIF_ASSERT(r == 2 && resp->code == 0 && resp->used_size == 0, "L1 No-Response: a suppressed piggybacked response becomes an empty ACK");
    else VERIF_ASSERT(r == 1 /* DROP */, "L1 No-Response: a suppressed non-piggybacked response is dropped");
  }
#else
  if (cls >= 1) VERIF_ASSERT(r == 0 /* DEFAULT */ && resp->code == rcode, "L1 without No-Response nothing is suppressed on a unicast session");
#endif
  VERIF_REACH("L1 end");
}

/* ---- L1m: multicast suppression rules (RFC 7252 8.1 + libcoap per-resource flags), no No-Response option ------------------- */
#include <netinet/in.h>
#ifndef VERIF_REPLAY
/* environment: interface enumeration (coap_is_bcast) finds no broadcast interface */
#include <ifaddrs.h>
int getifaddrs(struct ifaddrs **ifap) { *ifap = NULL; return 0; }
void freeifaddrs(struct ifaddrs *ifa) { (void)ifa; }
#endif
VERIF_HARNESS(c10_l1_no_response_mcast) {
  ne_init();
  VERIF_IN(uint8_t, rcode);
  VERIF_IN(uint8_t, per_resource);
  VERIF_IN(uint8_t, has_resource);
  VERIF_IN(uint16_t, flags);
  VERIF_IN(uint8_t, has_data);
  VERIF_IN(uint8_t, is_mcast);
  VERIF_ASSUME(per_resource <= 1 && has_resource <= 1 && has_data <= 1 && is_mcast <= 1);
  static coap_resource_t resm;
  memset(&resm, 0, sizeof(resm));
  resm.flags = flags;
  ne_ctx.mcast_per_resource = per_resource;
  memset(&ne_sess.addr_info, 0, sizeof(ne_sess.addr_info));
  ne_sess.addr_info.local.size = sizeof(struct sockaddr_in);
  ne_sess.addr_info.local.addr.sin.sin_family = AF_INET;
  ne_sess.addr_info.local.addr.sin.sin_addr.s_addr = is_mcast ? htonl(0xE00001BBu) /* 224.0.1.187 */ : htonl(0x0A000001u);
  coap_pdu_t *req = coap_pdu_init(COAP_MESSAGE_NON, 1, 7, 64);
  coap_pdu_t *resp = coap_pdu_init(COAP_MESSAGE_NON, rcode, 7, 64);
  if (has_data) coap_add_data(resp, 1, (const uint8_t *)"x");
  int r = __CPROVER_file_local_coap_net_c_no_response(req, resp, &ne_sess, has_resource ? &resm : NULL);
  unsigned cls = rcode >> 5;
  if (cls >= 1) {
    int drop;
    if (!is_mcast) drop = 0;
    else if (!has_resource || !per_resource) drop = cls > 2;                           /* RFC 7252 8.1: no error responses to multicast requests */
    else if (cls == 2) drop = (flags & COAP_RESOURCE_FLAGS_LIB_ENA_MCAST_SUPPRESS_2_XX) ||
                              ((flags & COAP_RESOURCE_FLAGS_LIB_ENA_MCAST_SUPPRESS_2_05) && rcode == COAP_RESPONSE_CODE(205) && !has_data);
    else if (cls == 4) drop = !(flags & COAP_RESOURCE_FLAGS_LIB_DIS_MCAST_SUPPRESS_4_XX);
    else if (cls == 5) drop = !(flags & COAP_RESOURCE_FLAGS_LIB_DIS_MCAST_SUPPRESS_5_XX);
    else drop = 0;
    if (drop) VERIF_ASSERT(r == 1 /* DROP */, "L1m a response the multicast rules suppress (RFC 7252 8.1 / the resource's own suppression flags) is dropped");
    else VERIF_ASSERT(r == 0 /* DEFAULT */ && resp->code == rcode, "L1m a response the multicast rules allow is sent; each per-resource flag governs exactly its own class");
  }
#ifdef WITNESS
  if (is_mcast && has_resource && per_resource && cls == 5 && (flags & COAP_RESOURCE_FLAGS_LIB_DIS_MCAST_SUPPRESS_5_XX) && !(flags & COAP_RESOURCE_FLAGS_LIB_DIS_MCAST_SUPPRESS_4_XX)) VERIF_REACH("L1m 5.xx allowed by its own flag");
#endif
}

/* ---- S4 (used by C07): a request that arrives AGAIN while its separate response is still pending (the handler parked it with
 * coap_register_async: delay 0 = until the application triggers it, or a deadline in the future) must not reach the handler a second
 * time: a Confirmable duplicate is (re-)acknowledged with an empty ACK, a Non-confirmable one is ignored. Once the deadline has
 * passed the request is passed up (that is how libcoap re-runs the handler for the delayed response). */
#ifndef ASYNC_KIND
#define ASYNC_KIND 0       /* 0: delay 0 (indefinite), 1: deadline in the future, 2: deadline passed */
#endif
VERIF_HARNESS(c10_s4_async_dup) {
  ne_init();
  ne_sess.type = COAP_SESSION_TYPE_SERVER;
  VERIF_IN(uint16_t, mid);
  VERIF_IN(uint64_t, now);
  VERIF_IN(uint64_t, deadline);
  VERIF_IN_BUF(tok, 4);
  VERIF_ASSUME(now >= 1 && now < (1ull << 40) && deadline >= 1 && deadline < (1ull << 41));
#if ASYNC_KIND == 1
  VERIF_ASSUME(deadline > now);
#elif ASYNC_KIND == 2
  VERIF_ASSUME(deadline <= now);
#endif
  env_now = now;
  res_a = coap_resource_init(&path_a, 0);
  coap_register_request_handler(res_a, COAP_REQUEST_GET, h_handler);
  res_unknown = NULL; res_proxy = NULL;
  h_calls = h_unknown_calls = h_proxy_calls = 0;
  coap_pdu_t *req = coap_pdu_init((coap_pdu_type_t)QTYPE, COAP_REQUEST_CODE_GET, mid, 256);
  coap_add_token(req, 4, tok);
  coap_add_option(req, COAP_OPTION_URI_PATH, 1, (const uint8_t *)"a");
  coap_pdu_encode_header(req, COAP_PROTO_UDP);
  /* state left by the first delivery: the handler registered the request for a separate response */
  coap_async_t *a = coap_register_async_lkd(&ne_sess, req, 0);
  VERIF_ASSUME(a != NULL);
  a->delay = ASYNC_KIND == 0 ? 0 : deadline;
  ne_tx_count = 0;
  /* the same request datagram arrives again (the empty ACK was lost / the network duplicated it) */
  coap_dispatch(&ne_ctx, &ne_sess, req);
#if ASYNC_KIND != 2
  VERIF_ASSERT(h_calls + h_unknown_calls + h_proxy_calls == 0, "S4 a request whose separate response is pending is not handed to the handler again");
#if QTYPE == T_CON
  VERIF_ASSERT(ne_tx_count == 1 && ne_tx_len[0] == 4 && ((ne_tx_first[0][0] >> 4) & 3) == COAP_MESSAGE_ACK && ne_tx_first[0][1] == 0 &&
               (uint16_t)((ne_tx_first[0][2] << 8) | ne_tx_first[0][3]) == mid, "S4 the duplicate Confirmable request is acknowledged again with an empty ACK carrying its message id");
#else
  VERIF_ASSERT(ne_tx_count == 0, "S4 a duplicate Non-confirmable request is ignored while the response is pending");
#endif
#else
  VERIF_ASSERT(h_calls == 1, "S4 once the delay has expired the request is passed to the handler (once)");
#endif
  VERIF_REACH("S4 end");
}
