/* C11 - observe: fresh, ordered notifications to registered observers until cancelled (DESIGN 4.11) */
#include "common/netenv.h"
#include "common/unreach.h"

void __CPROVER_file_local_coap_resource_c_coap_notify_observers(coap_context_t *context, coap_resource_t *r, int deleting);
#define NOT_DELETING 1      /* enum coap_deleting_resource_t { COAP_DELETING_RESOURCE, COAP_NOT_DELETING_RESOURCE } */
#define DELETING 0

static coap_resource_t *res;
static int h_calls;
static uint8_t h_code = 0x45;
static const coap_pdu_t *h_req;
static void
h_get(coap_resource_t *resource, coap_session_t *session, const coap_pdu_t *request, const coap_string_t *query, coap_pdu_t *response) {
  (void)resource; (void)session; (void)query;
  NE_CALLBACK_ENTRY("observe GET handler");
  h_calls++;
  h_req = request;
  response->code = h_code;
}
static coap_str_const_t path_a = {1, (const uint8_t *)"a"};

static coap_subscription_t *
make_observer(coap_session_t *s, const uint8_t *tok, uint16_t mid) {
  coap_subscription_t *o = (coap_subscription_t *)coap_malloc_type(COAP_SUBSCRIPTION, sizeof(coap_subscription_t));
  memset(o, 0, sizeof(*o));
  o->session = s;
  s->ref++;
  o->pdu = coap_pdu_init(COAP_MESSAGE_CON, COAP_REQUEST_CODE_GET, mid, 256);
  coap_add_token(o->pdu, 4, tok);
  { uint8_t z = 0; coap_add_option(o->pdu, COAP_OPTION_OBSERVE, 0, &z); }
  coap_add_option(o->pdu, COAP_OPTION_URI_PATH, 1, (const uint8_t *)"a");
  o->cache_key = (coap_cache_key_t *)coap_malloc_type(COAP_CACHE_KEY, sizeof(coap_cache_key_t));
  memset(o->cache_key, 0, sizeof(coap_cache_key_t));
  return o;
}

/* decode the reply recorded by l_write: token 4 bytes at offset 4, first option Observe (number 6) */
static int
reply_observe_value(int i, uint32_t *v) {
  const uint8_t *b = ne_tx_first[i];
  if (ne_tx_len[i] < 9) return 0;
  if ((b[8] >> 4) != 6) return 0;            /* delta 6 = Observe */
  unsigned l = b[8] & 15, k;
  if (l > 3 || ne_tx_len[i] < 9 + l) return 0;
  *v = 0;
  for (k = 0; k < 3; k++) if (k < l) *v = (*v << 8) | b[9 + k];
  return 1;
}

/* ---- L1: change signalled by the application -------------------------------------------------------------------- */
VERIF_HARNESS(c11_l1_change) {
  ne_init();
  VERIF_IN(uint32_t, observe);
  VERIF_IN(uint8_t, has_sub);
  VERIF_IN_BUF(tok, 4);
  VERIF_ASSUME(observe <= 0xFFFFFF && has_sub <= 1);
  res = coap_resource_init(&path_a, 0);
  res->context = &ne_ctx;
  res->observable = 1;
  res->observe = observe;
  if (has_sub) res->subscribers = make_observer(&ne_sess, tok, 1);
  int r = coap_resource_notify_observers_lkd(res, NULL);
  if (!has_sub) {
    VERIF_ASSERT(r == 0 && res->observe == observe && !res->dirty, "L1 nothing happens without subscribers");
  } else {
    VERIF_ASSERT(r == 1 && res->dirty && ne_ctx.observe_pending, "L1 the change is recorded for the next I/O step");
    VERIF_ASSERT(res->observe == ((observe + 1) & 0xFFFFFF), "L1 Observe value advances by one modulo 2^24");
    /* RFC 7641 3.4: V2 is fresher than V1 if (V1 < V2 and V2 - V1 < 2^23) or (V1 > V2 and V1 - V2 > 2^23) */
    uint32_t v1 = observe, v2 = res->observe;
    VERIF_ASSERT((v1 < v2 && v2 - v1 < (1u << 23)) || (v1 > v2 && v1 - v2 > (1u << 23)), "L1 the new value is greater in the 24-bit serial-number sense");
  }
  VERIF_REACH("L1 end");
}

/* ---- S1: one notification run from an arbitrary subscriber state -------------------------------------------------- */
#ifndef NOBS
#define NOBS 1
#endif
#ifndef OBSVAL
#define OBSVAL 5
#endif
VERIF_HARNESS(c11_s1_notify) {
  ne_init();
  ne_sess.type = COAP_SESSION_TYPE_SERVER;
  ne_sess2.type = COAP_SESSION_TYPE_SERVER;
  /* the Observe value's encoded length (0..3 bytes) steers the layout of the notification: concrete per job */
  const uint32_t observe = OBSVAL;
  VERIF_IN(uint8_t, rdirty);
  VERIF_IN(uint8_t, rpartial);
  VERIF_IN(uint8_t, notify_con);
  VERIF_IN(uint8_t, non_cnt);
  VERIF_IN(uint8_t, odirty);
  VERIF_IN(uint8_t, con_active);
  VERIF_IN(uint8_t, nstart);
  VERIF_IN(uint8_t, non_cnt2);
  VERIF_IN_BUF(tok, 4);
  VERIF_IN_BUF(tok2, 4);
  VERIF_ASSUME(observe <= 0xFFFFFF && rdirty <= 1 && rpartial <= 1 && notify_con <= 1 && odirty <= 1);
  VERIF_ASSUME(non_cnt <= 5 && non_cnt2 <= 5 && nstart >= 1 && nstart <= 3 && con_active <= nstart);
  res = coap_resource_init(&path_a, notify_con ? COAP_RESOURCE_FLAGS_NOTIFY_CON : COAP_RESOURCE_FLAGS_NOTIFY_NON);
  res->context = &ne_ctx;
  res->observable = 1;
  res->observe = observe;
  res->dirty = rdirty;
  res->partiallydirty = rpartial;
  coap_register_request_handler(res, COAP_REQUEST_GET, h_get);
  ne_sess.con_active = con_active;
  ne_sess.nstart = nstart;
  coap_subscription_t *o1 = make_observer(&ne_sess, tok, 0x10);
  o1->non_cnt = non_cnt;
  o1->dirty = odirty;
  res->subscribers = o1;
#if NOBS == 2
  coap_subscription_t *o2 = make_observer(&ne_sess2, tok2, 0x20);
  o2->non_cnt = non_cnt2;
  o2->dirty = 0;
  o1->next = o2;
#endif
  h_calls = 0;
  __CPROVER_file_local_coap_resource_c_coap_notify_observers(&ne_ctx, res, NOT_DELETING);
  int run = rdirty || rpartial;
  int due1 = run && (rdirty || odirty);
  int con1 = notify_con || non_cnt >= 5;
  int blocked1 = due1 && con_active >= nstart && con1;
  int sent1 = due1 && !blocked1;
  int sent2 = 0;
#if NOBS == 2
  /* second observer on an idle session: due iff the resource itself is dirty */
  sent2 = run && rdirty;
#endif
  VERIF_ASSERT(ne_tx_count == sent1 + sent2, "S1 every due, unblocked observer gets exactly one notification per run; nobody else gets one");
  VERIF_ASSERT(h_calls == sent1 + sent2, "S1 the GET handler runs once per notification");
  if (sent1) {
    uint32_t v = 0;
    VERIF_ASSERT(ne_tx_sess[0] == &ne_sess, "S1 notification goes to the observer's session");
    VERIF_ASSERT((ne_tx_first[0][0] & 15) == 4 && memcmp(&ne_tx_first[0][4], tok, 4) == 0, "S1 notification carries the observer's token");
    VERIF_ASSERT(ne_tx_first[0][1] == 0x45, "S1 notification carries the handler's response code");
    VERIF_ASSERT(reply_observe_value(0, &v) && v == observe, "S1 notification carries the resource's current Observe value");
    VERIF_ASSERT(((ne_tx_first[0][0] >> 4) & 3) == (con1 ? COAP_MESSAGE_CON : COAP_MESSAGE_NON), "S1 Confirmable iff NOTIFY_CON or five Non-confirmables in a row");
    VERIF_ASSERT(o1->non_cnt == (con1 ? 0 : non_cnt + 1), "S1 Non-confirmable streak is counted and reset by a Confirmable (at least every sixth is Confirmable)");
    VERIF_ASSERT(o1->dirty == 0, "S1 a notified observer is clean");
  } else if (due1) {
    VERIF_ASSERT(o1->dirty == 1 && res->partiallydirty == 1 && ne_ctx.observe_pending == 1, "S1 a blocked observer stays pending (the last state is eventually notified)");
    VERIF_ASSERT(o1->non_cnt == non_cnt, "S1 a blocked observer's counters are unchanged");
  } else if (run) {
    VERIF_ASSERT(o1->dirty == odirty, "S1 an observer that is not due is untouched");
  }
#if NOBS == 2
  if (sent2) {
    uint32_t v = 0;
    int i = sent1;
    VERIF_ASSERT(ne_tx_sess[i] == &ne_sess2 && memcmp(&ne_tx_first[i][4], tok2, 4) == 0, "S1 second observer gets its own token on its own session");
    VERIF_ASSERT(reply_observe_value(i, &v) && v == observe, "S1 second observer gets the same Observe value");
  }
#endif
  if (run) VERIF_ASSERT(res->dirty == 0, "S1 resource-level dirty flag cleared after the run");
  else VERIF_ASSERT(ne_tx_count == 0 && res->dirty == rdirty, "S1 nothing is sent when nothing changed");
#ifdef WITNESS
#ifdef WIT_BLOCKED
  if (blocked1) VERIF_REACH("S1 blocked observer");
#else
  if (sent1 && con1 && !notify_con) VERIF_REACH("S1 sixth notification is Confirmable");
#endif
#endif
}

/* ---- S3: deregistration --------------------------------------------------------------------------------------- */
#ifndef PATHWAY
#define PATHWAY 0        /* 4 session loss (coap_delete_observers), 0 coap_delete_observer, 1 failed CON notification, 2 handler error response, 3 Reset in reply to a notification */
#endif
VERIF_HARNESS(c11_s3_deregister) {
  ne_init();
  ne_sess.type = COAP_SESSION_TYPE_SERVER;
  /* tokens are concrete here: which list element a token selects is control flow (pointer-valued), and symex would
   * otherwise carry both list shapes through every later step */
  static const uint8_t tok[4] = {0x11, 0x22, 0x33, 0x44}, tok2[4] = {0x99, 0x22, 0x33, 0x44};
  const uint16_t nmid = 0x1234;
  res = coap_resource_init(&path_a, 0);
  res->context = &ne_ctx;
  res->observable = 1;
  res->observe = 5;
  coap_register_request_handler(res, COAP_REQUEST_GET, h_get);
  coap_subscription_t *o1 = make_observer(&ne_sess, tok, nmid);
  coap_subscription_t *o2 = make_observer(&ne_sess, tok2, (uint16_t)(nmid + 1));
  o1->next = o2;
  res->subscribers = o1;
  unsigned ref0 = ne_sess.ref;
  /* uthash iteration contract: RESOURCES_ITER follows hh.next from the head */
  ne_ctx.resources = res;
#if PATHWAY == 0
  {
    coap_bin_const_t t = {4, tok};
    int r = coap_delete_observer(res, &ne_sess, &t);
    VERIF_ASSERT(r == 1, "S3 deregistration reports success");
  }
#elif PATHWAY == 1
  {
    coap_bin_const_t t = {4, tok};
    coap_handle_failed_notify(&ne_ctx, &ne_sess, &t);     /* as coap_retransmit() does on give-up (COAP_OBS_MAX_FAIL = 1) */
  }
#elif PATHWAY == 2
  res->dirty = 1;
  o2->dirty = 0;
  h_code = 0x84;       /* 4.04 from the handler */
  __CPROVER_file_local_coap_resource_c_coap_notify_observers(&ne_ctx, res, NOT_DELETING);
#elif PATHWAY == 3
  {
    coap_pdu_t *rst = ne_make_pdu(COAP_MESSAGE_RST, 0, nmid, tok, 0);
    coap_dispatch(&ne_ctx, &ne_sess, rst);
  }
#elif PATHWAY == 4
  /* session loss: coap_session_disconnected_lkd() / session teardown call this; the session holds TWO observations of the resource */
  coap_delete_observers(&ne_ctx, &ne_sess);
#endif
#if PATHWAY == 4
  VERIF_ASSERT(res->subscribers == NULL, "S3 session loss removes every observation the session holds on the resource");
  VERIF_ASSERT(ne_sess.ref == ref0 - 2, "S3 each removed observer releases its session reference exactly once");
#elif PATHWAY == 2
  /* both observers were due: both got the error and both are removed */
  VERIF_ASSERT(res->subscribers == NULL, "S3 an error response from the handler removes the observers it was sent to");
  VERIF_ASSERT(ne_sess.ref == ref0 - 2, "S3 each removed observer releases its session reference exactly once");
#else
  VERIF_ASSERT(res->subscribers == o2 && o2->next == NULL, "S3 exactly the named observer is removed; the other one stays");
  VERIF_ASSERT(ne_sess.ref == ref0 - 1, "S3 the removed observer releases its session reference exactly once");
#endif
  /* after deregistration no further notification goes to that token */
  ne_tx_count = 0;
  h_code = 0x45;
  res->dirty = 1;
  __CPROVER_file_local_coap_resource_c_coap_notify_observers(&ne_ctx, res, NOT_DELETING);
#if PATHWAY == 2 || PATHWAY == 4
  VERIF_ASSERT(ne_tx_count == 0, "S3 no notification after all observers are gone");
#else
  VERIF_ASSERT(ne_tx_count == 1 && memcmp(&ne_tx_first[0][4], tok2, 4) == 0, "S3 later notifications go only to the remaining observer");
#endif
  VERIF_REACH("S3 end");
}

/* ---- S4: the deferred-notification retry (coap_check_notify_lkd, called from every I/O step) ------------------------------ */
VERIF_HARNESS(c11_s4_check_notify) {
  ne_init();
  ne_sess.type = COAP_SESSION_TYPE_SERVER;
  VERIF_IN(uint8_t, pending);
  VERIF_IN(uint8_t, notify_con);
  VERIF_IN(uint8_t, non_cnt);
  VERIF_IN(uint8_t, con_active);
  VERIF_IN(uint8_t, nstart);
  VERIF_IN_BUF(tok, 4);
  VERIF_ASSUME(pending <= 1 && notify_con <= 1 && non_cnt <= 5 && nstart >= 1 && nstart <= 3 && con_active <= nstart);
  res = coap_resource_init(&path_a, notify_con ? COAP_RESOURCE_FLAGS_NOTIFY_CON : COAP_RESOURCE_FLAGS_NOTIFY_NON);
  res->context = &ne_ctx;
  res->observable = 1;
  res->observe = 7;
  /* state left behind by a run in which this observer could not be served: see the "blocked" obligations of S1 */
  res->dirty = 0;
  res->partiallydirty = 1;
  coap_register_request_handler(res, COAP_REQUEST_GET, h_get);
  ne_sess.con_active = con_active;
  ne_sess.nstart = nstart;
  coap_subscription_t *o1 = make_observer(&ne_sess, tok, 0x10);
  o1->non_cnt = non_cnt;
  o1->dirty = 1;
  res->subscribers = o1;
  ne_ctx.resources = res;               /* uthash iteration contract: RESOURCES_ITER follows hh.next from the head */
  ne_ctx.observe_pending = pending;
  h_calls = 0;
  coap_check_notify_lkd(&ne_ctx);
  int con1 = notify_con || non_cnt >= 5;
  int blocked = con_active >= nstart && con1;
  if (!pending) {
    VERIF_ASSERT(ne_tx_count == 0 && o1->dirty == 1, "S4 nothing happens while no notification is pending");
  } else if (blocked) {
    VERIF_ASSERT(ne_tx_count == 0 && o1->dirty == 1 && res->partiallydirty == 1, "S4 a still-blocked observer stays dirty");
    VERIF_ASSERT(ne_ctx.observe_pending == 1, "S4 a notification that had to be deferred again stays pending for the next I/O step (eventually notified)");
  } else {
    VERIF_ASSERT(ne_tx_count == 1 && o1->dirty == 0 && memcmp(&ne_tx_first[0][4], tok, 4) == 0, "S4 the deferred notification is sent once the observer can be served");
    VERIF_ASSERT(ne_ctx.observe_pending == 0, "S4 nothing stays pending after every observer was served");
  }
#ifdef WITNESS
  if (pending && blocked) VERIF_REACH("S4 deferred again");
#endif
}
