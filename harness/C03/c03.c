/* C03 - decoder accepts exactly the well-formed messages and reports what is on the wire (DESIGN 4.3) */
#include "coap3/coap_libcoap_build.h"
#include "common/verif.h"
#include "ref/ref_codec.h"
#include <stdlib.h>

size_t __CPROVER_file_local_coap_pdu_c_next_option_safe(coap_opt_t **optp, size_t *length, uint16_t *max_opt);

#define BIG 70016
static uint8_t big[BIG];

/* ---- L1: coap_opt_parse == reference one-option decoder, every header, every available length <= 70000 */
VERIF_HARNESS(c03_l1_opt_parse) {
  VERIF_IN_BUF(hdr, 5);
  VERIF_IN(uint32_t, avail);
  VERIF_ASSUME(avail <= 70000);
  memcpy(big, hdr, 5);
  coap_option_t res;
  size_t r = coap_opt_parse(big, avail, &res);
  uint32_t d = 0, l = 0;
  size_t h = ref_opt_header(big, avail, &d, &l);
  int ref_ok = h != 0 && d <= 65535u && (uint64_t)h + l <= avail;
  VERIF_ASSERT((r != 0) == (ref_ok != 0), "L1 coap_opt_parse accepts exactly the decodable option headers whose delta fits 16 bit");
  if (r != 0 && ref_ok) {
    VERIF_ASSERT(r == h + l, "L1 option size = header + value length");
    VERIF_ASSERT(res.delta == d, "L1 delta equals reference");
    VERIF_ASSERT(res.length == l, "L1 length equals reference");
    VERIF_ASSERT(res.value == big + h, "L1 value pointer = option + header size");
    VERIF_ASSERT(coap_opt_length(big) == l, "L1 coap_opt_length equals reference");
    VERIF_ASSERT(coap_opt_value(big) == big + h, "L1 coap_opt_value equals reference");
  }
#ifdef WITNESS
  if (r != 0 && d >= 269 && l >= 269) VERIF_REACH("L1 accepted option with 2-byte delta and 2-byte length");
#endif
}

/* ---- L2a: one step of the option walk from an arbitrary running number (static next_option_safe) */
VERIF_HARNESS(c03_l2_next_option) {
  VERIF_IN_BUF(hdr, 5);
  VERIF_IN(uint32_t, avail);
  VERIF_IN(uint16_t, running);
  VERIF_ASSUME(avail >= 1 && avail <= 70000);
  memcpy(big, hdr, 5);
  coap_opt_t *opt = big;
  size_t length = avail;
  uint16_t max_opt = running;
  size_t r = __CPROVER_file_local_coap_pdu_c_next_option_safe(&opt, &length, &max_opt);
  uint32_t d = 0, l = 0;
  size_t h = ref_opt_header(big, avail, &d, &l);
  int ref_ok = h != 0 && (uint64_t)running + d <= 65535u && (uint64_t)h + l <= avail;
  VERIF_ASSERT((r != 0) == (ref_ok != 0), "L2 step accepted iff header decodable, value inside, number <= 65535");
  if (r != 0 && ref_ok) {
    VERIF_ASSERT(max_opt == running + d, "L2 running option number advanced by delta");
    VERIF_ASSERT(opt == big + h + l && length == avail - h - l, "L2 position advanced by header + value");
  }
#ifdef WITNESS
  if (r != 0 && running > 60000 && d > 5000) VERIF_REACH("L2 accepted near the number-space limit");
#endif
}

/* ---- L2b: single-option message of any size through coap_pdu_parse_opt: per-option length limits are applied to
 * the true length (0..65804) of the option, on every code (base and signalling tables) */
VERIF_HARNESS(c03_l2_one_option_message) {
  VERIF_IN_BUF(hdr, 5);
  VERIF_IN(uint32_t, used);
  VERIF_IN(uint8_t, code);
  VERIF_ASSUME(code != 0);
  VERIF_ASSUME(used >= 1 && used <= 70000);
  VERIF_ASSUME(hdr[0] != 0xFF);
  uint32_t d = 0, l = 0;
  size_t h = ref_opt_header(hdr, 5, &d, &l);
  /* the message ends with this option (or inside it): at most one loop iteration */
  VERIF_ASSUME(h == 0 ? used <= 5 : used <= h + l);
  memcpy(big + 8, hdr, 5);
  coap_pdu_t pdu;
  memset(&pdu, 0, sizeof(pdu));
  pdu.max_hdr_size = 6;
  pdu.hdr_size = 4;
  pdu.token = big + 8;
  pdu.alloc_size = used;
  pdu.used_size = used;
  pdu.code = code;
  int r = coap_pdu_parse_opt(&pdu);
  size_t hh = ref_opt_header(hdr, used < 5 ? used : 5, &d, &l);
  int ref_ok = hh != 0 && d <= 65535u && hh + l == used && ref_opt_length_ok(code, d, l);
  VERIF_ASSERT((r != 0) == (ref_ok != 0), "L2b single-option message accepted iff well-formed and within the option's length limits");
  if (r && ref_ok) {
    VERIF_ASSERT(pdu.max_opt == d, "L2b max_opt is the option number");
    VERIF_ASSERT(pdu.data == NULL, "L2b no payload");
  }
#ifdef WITNESS
  if (r && l >= 65536) VERIF_REACH("L2b accepted option of length >= 65536");
#endif
}

/* ---- L3: header parsing for every first bytes and sizes */
#ifndef PROTO
#define PROTO 1
#endif
#if PROTO == 1 || PROTO == 2
#define RPROTO REF_UDP
#elif PROTO == 3 || PROTO == 4
#define RPROTO REF_TCP
#else
#define RPROTO REF_WS
#endif

VERIF_HARNESS(c03_l3_header) {
  VERIF_IN_BUF(first, 8);
  VERIF_IN(uint32_t, total);     /* bytes in the message */
  VERIF_ASSUME(total >= 1 && total <= 70000);
  memcpy(big + 2, first, 8);
  const uint8_t *msg = big + 2;
  size_t hs = coap_pdu_parse_header_size(PROTO, msg);
  uint32_t tkn = msg[0] & 15u;
  uint32_t rh = RPROTO == REF_UDP ? 4 : (RPROTO == REF_WS ? 2 : ((msg[0] >> 4) < 13 ? 2 : ((msg[0] >> 4) == 13 ? 3 : ((msg[0] >> 4) == 14 ? 4 : 6))));
  VERIF_ASSERT(hs == rh, "L3 header size equals reference");
  if (total < rh) return;       /* coap_pdu_parse rejects before parsing the header */
  coap_pdu_t pdu;
  memset(&pdu, 0, sizeof(pdu));
  pdu.max_hdr_size = 6;
  pdu.hdr_size = (uint8_t)hs;
  pdu.token = big + 2 + hs;
  pdu.alloc_size = total - hs;
  pdu.used_size = total - hs;
  int r = coap_pdu_parse_header(&pdu, PROTO);
  int ref_ok = 1;
  uint32_t tkl = 0, ext = 0;
  if (RPROTO == REF_UDP && (msg[0] >> 6) != 1) ref_ok = 0;
  if (tkn < 13) tkl = tkn;
  else if (tkn == 13) { ext = 1; if (total < rh + 1) ref_ok = 0; else tkl = 13u + msg[rh]; }
  else if (tkn == 14) { ext = 2; if (total < rh + 2) ref_ok = 0; else tkl = 269u + ((uint32_t)msg[rh] << 8) + msg[rh + 1]; }
  else ref_ok = 0;
  if (ref_ok && (uint64_t)rh + ext + tkl > total) ref_ok = 0;
  VERIF_ASSERT((r != 0) == (ref_ok != 0), "L3 header accepted iff version/TKL valid and token inside the message");
  if (r && ref_ok) {
    VERIF_ASSERT(pdu.actual_token.length == tkl, "L3 token length equals reference");
    VERIF_ASSERT(pdu.actual_token.s == pdu.token + ext, "L3 token pointer skips the extension bytes");
    VERIF_ASSERT(pdu.e_token_length == tkl + ext, "L3 e_token_length = token + extension bytes");
    VERIF_ASSERT(pdu.code == msg[RPROTO == REF_UDP ? 1 : rh - 1], "L3 code");
    if (RPROTO == REF_UDP) {
      VERIF_ASSERT(pdu.type == ((msg[0] >> 4) & 3), "L3 type");
      VERIF_ASSERT(pdu.mid == ((msg[2] << 8) | msg[3]), "L3 mid");
    }
  }
#if RPROTO == REF_TCP
  {
    size_t sz = coap_pdu_parse_size(PROTO, msg, total < 8 ? total : 8);
    size_t rt = ref_tcp_total_size(msg, total < 8 ? total : 8);
    /* coap_pdu_parse_size returns options+payload+token-field size (without the hdr_size bytes) once enough bytes are in */
    if (rt != 0 && tkn != 15) VERIF_ASSERT(sz + rh == rt, "L3 stream message size equals reference");
  }
#endif
#ifdef WITNESS
  if (r && tkl >= 269) VERIF_REACH("L3 accepted 2-byte extended token");
#endif
}

/* ---- B1: whole coap_pdu_parse on every byte string of length N ---- */
#ifndef N
#define N 8
#endif
VERIF_HARNESS(c03_b1_parse) {
  VERIF_IN_BUF(msg_in, N);
  uint8_t *msg = malloc(N);    /* exact-size object */
  __CPROVER_assume(msg != NULL);
  memcpy(msg, msg_in, N);
#if RPROTO == REF_TCP
  {
    size_t tot = ref_tcp_total_size(msg, N);
    VERIF_ASSUME(tot == 0 || tot == N);   /* the stream reader hands coap_pdu_parse exactly one message (C05) */
  }
#endif
  coap_pdu_t *pdu = coap_pdu_init(0, 0, 0, 1152);   /* as coap_handle_dgram / coap_read_session do */
  int r = coap_pdu_parse(PROTO, msg, N, pdu);
  static ref_msg_t m;
  int ref_ok = ref_decode(RPROTO, msg, N, &m);
  VERIF_ASSERT((r != 0) == (ref_ok != 0), "B1 coap_pdu_parse accepts exactly the well-formed messages");
  if (r && ref_ok) {
    const uint8_t *base = pdu->token - pdu->hdr_size;
    VERIF_ASSERT(pdu->hdr_size == m.hdr_size, "B1 header size");
    VERIF_ASSERT(pdu->code == m.code, "B1 code");
#if RPROTO == REF_UDP
    VERIF_ASSERT(pdu->type == m.type && pdu->mid == m.mid, "B1 type and mid");
#endif
    VERIF_ASSERT(pdu->actual_token.length == m.tkl, "B1 token length");
    VERIF_ASSERT(m.tkl == 0 || pdu->actual_token.s == base + m.tok_off, "B1 token position");
    VERIF_ASSERT(pdu->token + pdu->e_token_length == base + m.opt_off, "B1 options start");
    VERIF_ASSERT(pdu->max_opt == m.max_opt, "B1 highest option number");
    {
      size_t dl = 0; const uint8_t *dp = NULL;
      int has = coap_get_data(pdu, &dl, &dp);
      VERIF_ASSERT((has != 0) == (m.payload_len != 0), "B1 payload presence");
      if (has && m.payload_len) {
        VERIF_ASSERT(dl == m.payload_len, "B1 payload length");
        VERIF_ASSERT(dp == base + m.payload_off, "B1 payload position");
      }
    }
    {
      VERIF_IN(uint8_t, idx);
      VERIF_ASSUME(idx < N);
      VERIF_ASSERT(base[idx] == msg[idx], "B1 stored bytes equal the received bytes");
    }
#ifdef WALK
    {
      coap_opt_iterator_t oi;
      coap_opt_t *o;
      unsigned i;
      coap_option_iterator_init(pdu, &oi, COAP_OPT_ALL);
      for (i = 0; i < m.nopts && i < REF_MAX_OPTS; i++) {
        o = coap_option_next(&oi);
        VERIF_ASSERT(o != NULL, "B1w iterator delivers every option of the reference list");
        if (!o) break;
        VERIF_ASSERT(oi.number == m.opts[i].number, "B1w option number");
        VERIF_ASSERT(coap_opt_length(o) == m.opts[i].length, "B1w option length");
        VERIF_ASSERT(coap_opt_value(o) == base + m.opts[i].voff, "B1w option value position");
      }
      if (m.nopts <= REF_MAX_OPTS) {
        o = coap_option_next(&oi);
        VERIF_ASSERT(o == NULL, "B1w iterator ends after the last option");
      }
    }
#endif
  }
#ifdef WITNESS
#if defined(WIT_ANY)
  VERIF_REACH("B1 harness end reached");
#elif N >= 9
  if (r && m.nopts >= 2 && m.payload_len) VERIF_REACH("B1 accepted message with two options and payload");
#elif N >= 5
  if (r && m.nopts >= 1) VERIF_REACH("B1 accepted message with an option");
#else
  if (r) VERIF_REACH("B1 accepted message");
#endif
#endif
}
