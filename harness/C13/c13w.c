/* C13-S3: the blocking wait of the I/O loop. coap_io_process_with_fds_lkd() (coap_io.c) releases the global lock around epoll_wait()
 * so that other threads can use the library while this one sleeps, and must hold it again - on EVERY outcome of the wait (events,
 * timeout, EINTR from a signal, other errors, a full event array that needs another round) - before it touches library state and
 * when it returns to the public wrapper, which unlocks. Real coap_io.c + coap_threadsafe.c; the functions that work on library
 * state are replaced by recording stubs that check "lock held by this thread"; epoll_wait is an environment stub with an arbitrary
 * result that checks "lock free while sleeping". Ghost mutex as in c13.c. */
#include "coap3/coap_libcoap_build.h"
#include "common/verif.h"
#include <pthread.h>
#include <errno.h>
#include <sys/epoll.h>

int g_owner, g_self = 1, g_selfdeadlock, g_bad_unlock;
#define SELF g_self
pthread_t pthread_self(void) { return (pthread_t)SELF; }
int pthread_mutex_init(pthread_mutex_t *m, const pthread_mutexattr_t *a) { (void)m; (void)a; g_owner = 0; return 0; }
int pthread_mutex_lock(pthread_mutex_t *m) { (void)m; if (g_owner == SELF) g_selfdeadlock = 1; g_owner = SELF; return 0; }
int pthread_mutex_unlock(pthread_mutex_t *m) { (void)m; if (g_owner != SELF) g_bad_unlock = 1; g_owner = 0; return 0; }

coap_lock_t global_lock;
int coap_started = 1;
static coap_context_t w_ctx;
static int unlocked_work, wait_calls, waited_locked, do_calls;
#define CHECK_HELD() do { if (g_owner != SELF) unlocked_work = 1; } while (0)

unsigned int coap_io_prepare_epoll_lkd(coap_context_t *ctx, coap_tick_t now) { (void)ctx; (void)now; CHECK_HELD(); VERIF_IN(uint32_t, prep_timeout); return prep_timeout; }
void coap_io_do_epoll_lkd(coap_context_t *ctx, struct epoll_event *events, size_t nevents) { (void)ctx; (void)events; (void)nevents; CHECK_HELD(); do_calls++; }
void coap_expire_cache_entries(coap_context_t *ctx) { (void)ctx; CHECK_HELD(); }
coap_tick_t coap_check_async(coap_context_t *ctx, coap_tick_t now) { (void)ctx; (void)now; CHECK_HELD(); return 0; }

int
epoll_wait(int epfd, struct epoll_event *events, int maxevents, int timeout) {
  (void)epfd; (void)events; (void)timeout;
  VERIF_IN(int32_t, wait_result);
  VERIF_IN(uint8_t, wait_eintr);
  wait_calls++;
  if (g_owner == SELF) waited_locked = 1;
  if (wait_calls > 3) return 0;                       /* bound on "event array full, go round again" */
  VERIF_ASSUME(wait_result >= -1 && wait_result <= maxevents);
  if (wait_result < 0) errno = wait_eintr ? EINTR : EBADF;
  return wait_result;
}

VERIF_HARNESS(c13_s3_blocking_wait) {
  VERIF_IN(uint32_t, timeout_ms);
  memset(&global_lock, 0, sizeof(global_lock));
  g_owner = 0;
  w_ctx.epfd = 3;
  /* as the public wrapper coap_io_process() does */
  coap_lock_lock(&w_ctx, return);
  VERIF_ASSERT(g_owner == SELF, "S3 wrapper takes the lock");
  int r = coap_io_process_with_fds_lkd(&w_ctx, timeout_ms, 0, NULL, NULL, NULL);
  (void)r;
  VERIF_ASSERT(wait_calls >= 1 && !waited_locked, "S3 the global lock is released while the thread sleeps in epoll_wait (other threads can use the library)");
  VERIF_ASSERT(!unlocked_work, "S3 library state is only touched with the global lock held, whatever the wait returned (events, timeout, EINTR, error)");
  VERIF_ASSERT(g_owner == SELF, "S3 the lock is held again when the I/O step returns to its wrapper");
  coap_lock_unlock(&w_ctx);
  VERIF_ASSERT(g_owner == 0 && !g_bad_unlock && !g_selfdeadlock, "S3 the wrapper's unlock releases a mutex this thread owns; no self-deadlock");
#ifdef WITNESS
  if (wait_calls == 1 && do_calls == 0) VERIF_REACH("S3 wait interrupted");
#endif
}
