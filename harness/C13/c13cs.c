/* C13 - callback call sites of the protocol layer (DESIGN 4.13): every application callback reached from coap_dispatch is
 * entered through a coap_lock_callback* section (in_callback > 0) or with the lock released - otherwise the first public API
 * call the callback makes blocks for ever on the non-recursive global mutex. The obligation itself sits in the recording
 * handlers of netenv.h (NE_CALLBACK_ENTRY, active with -DC13_CALLBACK_CHECK); the other call sites are covered by running the
 * C06/C07/C08 harnesses with the same define (jobs/C13.py). */
#include "common/netenv.h"
#include "common/unreach.h"

unsigned int coap_dtls_get_overhead(coap_session_t *session) { (void)session; return 29; }

/* keep-alive: libcoap sent an empty CON (ping), the peer answers with RST: the pong handler runs */
VERIF_HARNESS(c13_s2_pong) {
  ne_init();
  VERIF_IN(uint16_t, mid);
  VERIF_IN(uint64_t, now);
  VERIF_ASSUME(now >= 1 && now < (1ull << 50));
  env_now = now;
  ne_ctx.sendqueue_basetime = now;
  ne_ctx.ping_timeout = 30;
  ne_sess.last_ping = now;
  ne_sess.last_ping_mid = mid;
  coap_queue_t *node = ne_make_node(&ne_sess, ne_make_pdu(COAP_MESSAGE_CON, 0, mid, NULL, 0), 2000, 0);
  node->t = 2000;
  ne_ctx.sendqueue = node;
  ne_sess.con_active = 1;
  coap_pdu_t *rcvd = ne_make_pdu(COAP_MESSAGE_RST, 0, mid, NULL, 0);
  coap_dispatch(&ne_ctx, &ne_sess, rcvd);
  VERIF_ASSERT(ne_pong_count == 1, "S2 the RST answering libcoap's keep-alive ping reaches the pong handler once");
  VERIF_ASSERT(ne_nack_count == 0, "S2 a pong is not reported as a NACK");
  VERIF_ASSERT(ne_mutex_owner == 1 && NE_IN_CALLBACK == 0, "S2 after the callback the thread owns the lock again and is outside any callback section");
  VERIF_REACH("S2 pong end");
}

/* an empty CON from the peer (CoAP ping): the ping handler runs, a RST goes out */
VERIF_HARNESS(c13_s2_ping) {
  ne_init();
  VERIF_IN(uint16_t, mid);
  VERIF_IN(uint64_t, now);
  VERIF_ASSUME(now >= 1 && now < (1ull << 50));
  env_now = now;
  ne_ctx.sendqueue_basetime = now;
  coap_pdu_t *rcvd = ne_make_pdu(COAP_MESSAGE_CON, 0, mid, NULL, 0);
  coap_dispatch(&ne_ctx, &ne_sess, rcvd);
  VERIF_ASSERT(ne_ping_count == 1, "S2 an empty Confirmable (CoAP ping) reaches the ping handler once");
  /* (the Reset that answers a ping is rate limited to one per 250 ms: not this property's subject) */
  VERIF_ASSERT(ne_tx_count <= 1, "S2 a ping is answered by at most one datagram");
  VERIF_ASSERT(ne_mutex_owner == 1 && NE_IN_CALLBACK == 0, "S2 after the callback the thread owns the lock again and is outside any callback section");
  VERIF_REACH("S2 ping end");
}
