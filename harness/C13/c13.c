/* C13 - advertised thread safety: the global lock protocol (DESIGN 4.13).
 * pthread_mutex_* are harness models on a ghost owner word; pthread_self() is the ghost current thread id.
 * Compiled against the coap_defines.h the build system really generates (and, in the second configuration,
 * against COAP_THREAD_SAFE=1 as autotools defines it). */
#include "coap3/coap_libcoap_build.h"
#include "common/verif.h"
#include <pthread.h>

/* ---- ghost mutex --------------------------------------------------------------------------------------- */
int g_owner;            /* 0 = free, else thread id */
int g_self = 1;         /* sequential jobs: the only thread */
int g_selfdeadlock;     /* a thread tried to take the mutex it already owns */
int g_bad_unlock;       /* unlock by a thread that does not own the mutex */
#ifdef TWO_THREADS
__thread int g_tid;
#define SELF g_tid
#else
#define SELF g_self
#endif

pthread_t
pthread_self(void) {
  return (pthread_t)SELF;
}
int
pthread_mutex_init(pthread_mutex_t *m, const pthread_mutexattr_t *a) {
  (void)m; (void)a;
  g_owner = 0;
  return 0;
}
int
pthread_mutex_lock(pthread_mutex_t *m) {
  (void)m;
#ifndef VERIF_REPLAY
  __CPROVER_atomic_begin();
#endif
  if (g_owner == SELF) g_selfdeadlock = 1;
#ifndef VERIF_REPLAY
  __CPROVER_assume(g_owner == 0);   /* blocks until free; a thread that can never pass ends no schedule */
#else
  if (g_owner != 0) { fprintf(stderr, "REPLAY: assertion failed: mutex would block forever\n"); exit(1); }
#endif
  g_owner = SELF;
#ifndef VERIF_REPLAY
  __CPROVER_atomic_end();
#endif
  return 0;
}
int
pthread_mutex_unlock(pthread_mutex_t *m) {
  (void)m;
  if (g_owner != SELF) g_bad_unlock = 1;
  g_owner = 0;
  return 0;
}

extern int coap_started;

/* ---- B0: capability vs configuration ---------------------------------------------------------------------
 * coap_session_reference() is the real public wrapper; its _lkd body is replaced (goto-instrument
 * --remove-function-body) by this function, which observes whether the caller holds the mutex. */
int b0_body_runs, b0_held_in_body;
coap_session_t *
coap_session_reference_lkd(coap_session_t *session) {
  b0_body_runs++;
  b0_held_in_body = (g_owner == SELF);
  ++session->ref;
  return session;
}

#ifndef WRAPPER
#define WRAPPER 0
#endif
#ifdef B0_WRAPPERS
/* further public wrappers whose _lkd bodies are replaced the same way; they differ in where the wrapper takes its context from */
#define B0_BODY() do { b0_body_runs++; b0_held_in_body = (g_owner == SELF); } while (0)
int coap_delete_resource_lkd(coap_context_t *context, coap_resource_t *resource) { (void)context; (void)resource; B0_BODY(); return 1; }
int coap_resource_notify_observers_lkd(coap_resource_t *r, const coap_string_t *query) { (void)r; (void)query; B0_BODY(); return 1; }
void coap_session_release_lkd(coap_session_t *session) { (void)session; B0_BODY(); }
coap_mid_t coap_send_lkd(coap_session_t *session, coap_pdu_t *pdu) { (void)session; (void)pdu; B0_BODY(); return 1; }
#endif

VERIF_HARNESS(c13_b0_wrapper_locks) {
  static coap_context_t ctx;
  static coap_session_t sess;
  static coap_resource_t res;
  static coap_pdu_t pdu;
  sess.context = &ctx;
  res.context = &ctx;
  coap_started = 1;
  g_owner = 0;
  int supported = coap_threadsafe_is_supported();
#if WRAPPER == 0
  coap_session_t *r = coap_session_reference(&sess);
  VERIF_ASSERT(r == &sess, "B0 coap_session_reference returns the session");
#elif WRAPPER == 1
  /* "Input context is ignored, but param left there to keep API consistent": NULL is a legal first argument */
  (void)coap_delete_resource(NULL, &res);
#elif WRAPPER == 2
  (void)coap_delete_resource(&ctx, &res);
#elif WRAPPER == 3
  (void)coap_resource_notify_observers(&res, NULL);
#elif WRAPPER == 4
  coap_session_release(&sess);
#elif WRAPPER == 5
  (void)coap_send(&sess, &pdu);
#endif
  VERIF_ASSERT(b0_body_runs == 1, "B0 public wrapper runs its locked body");
  if (supported) {
    VERIF_ASSERT(b0_held_in_body, "B0 coap_threadsafe_is_supported() reports support, so the public wrapper holds the global lock while the library body runs");
    VERIF_ASSERT(g_owner == 0, "B0 the wrapper releases the global lock on return");
  }
  VERIF_REACH("B0 end");
}

#if COAP_THREAD_SAFE
#define GL_RESET() memset(&global_lock, 0, sizeof(global_lock))
#define GL_IN_CALLBACK (global_lock.in_callback)
#define GL_LOCK_COUNT (global_lock.lock_count)
#else
/* locking compiled out: nothing to reset/inspect. If the library nevertheless advertises thread safety the
 * obligations below fail, which is the point. */
#define GL_RESET() do { } while (0)
#define GL_IN_CALLBACK 0
#define GL_LOCK_COUNT 0
#endif
/* ---- S1: lock protocol, sequential: every callback form, with API re-entry from the callback -------------- */
static coap_context_t s_ctx;
int cb_runs, cb_saw_lock_free, cb_nested_ok;
#ifndef NEST
#define NEST 1
#endif

static void
reenter_api(void) {
  /* what a public API function does when called from inside an application callback */
  int k;
  for (k = 0; k < NEST; k++) {
    int got = 0;
    coap_lock_lock(&s_ctx, goto out);
    got = 1;
    cb_nested_ok++;
    coap_lock_unlock(&s_ctx);
out:
    (void)got;
  }
}
static int
app_callback_ret(void) {
  cb_runs++;
  cb_saw_lock_free = (g_owner == 0);
  reenter_api();
  return 7;
}
static void
app_callback(void) {
  (void)app_callback_ret();
}
static int
ev_handler(coap_session_t *session, const coap_event_t event) {
  (void)session; (void)event;
  return app_callback_ret();
}

#ifndef FORM
#define FORM 0
#endif
VERIF_HARNESS(c13_s1_lock_protocol) {
  int r = 0;
  coap_started = 1;
  GL_RESET();
  g_owner = 0;
  if (!coap_threadsafe_is_supported()) {   /* nothing is promised */
    VERIF_REACH("S1 end (thread safety not advertised)");
    return;
  }
  /* outermost public API call */
  coap_lock_lock(&s_ctx, return);
  VERIF_ASSERT(g_owner == SELF, "S1 lock taken by the outermost API call");
#if FORM == 0
  coap_lock_callback(&s_ctx, app_callback());
#elif FORM == 1
  coap_lock_callback_ret(r, &s_ctx, app_callback_ret());
#elif FORM == 2
  coap_lock_callback_release(&s_ctx, app_callback(), return);
#elif FORM == 3
  coap_lock_callback_ret_release(r, &s_ctx, app_callback_ret(), return);
#elif FORM == 4
  /* the real call site of the event callback */
  s_ctx.handle_event = ev_handler;
  r = coap_handle_event_lkd(&s_ctx, COAP_EVENT_SERVER_SESSION_NEW, NULL);
#elif FORM == 5 && COAP_THREAD_SAFE
  coap_lock_invert(&s_ctx, app_callback(), return);
#elif FORM == 5
  app_callback();   /* the macro's no-locking variant does not compile (expands to an undefined name) and is unused */
#endif
  (void)r;
  VERIF_ASSERT(cb_runs == 1, "S1 callback ran once");
  VERIF_ASSERT(cb_nested_ok == NEST, "S1 every nested public API call made from the callback completed");
  VERIF_ASSERT(!g_selfdeadlock, "S1 no thread blocks on a mutex it already owns (self-deadlock)");
#if FORM == 2 || FORM == 3 || FORM == 5
  VERIF_ASSERT(cb_saw_lock_free, "S1 release forms run the callback with the global lock free");
#endif
  VERIF_ASSERT(g_owner == SELF, "S1 lock held again after the callback returns");
  VERIF_ASSERT(GL_IN_CALLBACK == 0, "S1 in_callback back to 0 after the callback");
  coap_lock_unlock(&s_ctx);
  VERIF_ASSERT(g_owner == 0, "S1 outermost unlock releases the mutex (other threads can proceed)");
  VERIF_ASSERT(GL_IN_CALLBACK == 0 && GL_LOCK_COUNT == 0, "S1 lock bookkeeping restored");
  VERIF_ASSERT(!g_bad_unlock, "S1 no unlock of a mutex the thread does not own");
  VERIF_REACH("S1 end");
}

#ifdef TWO_THREADS
/* ---- B1: two threads through the real lock functions; mutual exclusion and completion --------------------- */
int shared_counter, in_critical, overlap, done1, done2;

static void
thread_body(int with_event) {
  int r = 0;
  coap_lock_lock(&s_ctx, return);
  if (in_critical) overlap = 1;
  in_critical = 1;
  {
    int t = shared_counter;       /* read-modify-write of library state */
    if (with_event) {
      coap_lock_callback_ret(r, &s_ctx, app_callback_ret());
    }
    shared_counter = t + 1;
  }
  in_critical = 0;
  coap_lock_unlock(&s_ctx);
  (void)r;
}

VERIF_HARNESS(c13_b1_two_threads) {
  coap_started = 1;
  GL_RESET();
  g_owner = 0;
  __CPROVER_ASYNC_1: { g_tid = 1; thread_body(EVENT1); done1 = 1; }
  __CPROVER_ASYNC_2: { g_tid = 2; thread_body(EVENT2); done2 = 1; }
  VERIF_ASSERT(!overlap, "B1 never two threads inside the library at once");
  VERIF_ASSERT(!g_selfdeadlock, "B1 no thread ever blocks on the mutex it already owns (a callback re-entering the API is recognised as the lock owner in every interleaving)");
  VERIF_ASSERT(!g_bad_unlock, "B1 no thread unlocks a mutex it does not own");
  if (done1 && done2) {
    VERIF_ASSERT(shared_counter == 2, "B1 no lost update on library state");
    VERIF_ASSERT(g_owner == 0, "B1 mutex free once both threads returned");
  }
#ifdef WITNESS
  /* liveness as reachability: some schedule completes both threads */
  if (done1 && done2) VERIF_REACH("B1 a schedule in which both threads complete exists");
#endif
}
#endif
