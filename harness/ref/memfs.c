/* memfs.c - in-memory model of the part of ISO C stdio that libcoap's persistence code uses, with a crash point.
 * Two named files ("f" and "f.tmp" style names are compared as strings), small contents, FILE objects with mode
 * flags: a stream opened "r" cannot be written, one opened "a" or "w" cannot be read (C11 7.21.5.3), "w+" creates or
 * truncates. rename() is atomic. Every call that can change the disk is counted; when the counter reaches
 * memfs_crash_at the process "dies": the disk is frozen from then on (later calls still return success to the caller,
 * but change nothing), which is how the state found after a restart is obtained in the same run.
 * Two write models (both are behaviours ISO C allows; a job picks one):
 *   default        : every fwrite/fprintf reaches the disk at once (an unbuffered stream; crash points between single writes)
 *   MEMFS_BUFFERED : written data stays in the stream (a private image of the file) and reaches the disk only with
 *                    fflush()/fclose() (a fully buffered stream whose buffer is never flushed early); a crash loses it.
 *                    open(O_TRUNC), rename and remove are system calls and act at once; the stream follows the file across a
 *                    rename (it refers to the inode, not the name). */
#include <stdio.h>
#include <string.h>
#include <stdarg.h>
#include <stdint.h>
#include "ref/memfs.h"

memfs_file_t memfs_files[MEMFS_NFILES];
int memfs_ops, memfs_crash_at = -1, memfs_frozen;

#ifdef MEMFS_BUFFERED
typedef struct { int used, file, can_read, can_write; size_t pos; int dirty; size_t len; uint8_t data[MEMFS_CAP]; } mstream_t;
#else
typedef struct { int used, file, can_read, can_write; size_t pos; } mstream_t;
#endif
static mstream_t streams[4];
/* FILE is opaque to the code under test; a stream handle is a pointer into this array */
static FILE *handle(int i) { return (FILE *)(void *)&streams[i]; }
static mstream_t *stream(FILE *fp) { return (mstream_t *)(void *)fp; }

static int
mutating(void) {
  /* returns 1 if the disk may be changed by this call */
  if (memfs_ops == memfs_crash_at) memfs_frozen = 1;
  memfs_ops++;
  return !memfs_frozen;
}

#ifdef MEMFS_BUFFERED
static void
load(mstream_t *st) {
  size_t i;
  st->len = memfs_files[st->file].len;
  for (i = 0; i < MEMFS_CAP; i++) st->data[i] = memfs_files[st->file].data[i];
  st->dirty = 0;
}
static void
commit(mstream_t *st) {
  size_t i;
  if (!st->dirty) return;
  if (mutating()) {
    memfs_files[st->file].len = st->len;
    for (i = 0; i < MEMFS_CAP; i++) memfs_files[st->file].data[i] = st->data[i];
  }
  st->dirty = 0;
}
#define F_LEN(st) ((st)->len)
#define F_DATA(st) ((st)->data)
#else
#define F_LEN(st) (memfs_files[(st)->file].len)
#define F_DATA(st) (memfs_files[(st)->file].data)
#endif

static int
find(const char *name, int create) {
  int i;
  for (i = 0; i < MEMFS_NFILES; i++)
    if (memfs_files[i].exists && strcmp(memfs_files[i].name, name) == 0) return i;
  if (!create) return -1;
  for (i = 0; i < MEMFS_NFILES; i++)
    if (!memfs_files[i].exists) {
      memfs_files[i].exists = 1;
      strncpy(memfs_files[i].name, name, MEMFS_NAME - 1);
      memfs_files[i].len = 0;
      return i;
    }
  return -1;
}

void
memfs_reset(void) {
  memset(memfs_files, 0, sizeof(memfs_files));
  memset(streams, 0, sizeof(streams));
  memfs_ops = 0; memfs_crash_at = -1; memfs_frozen = 0;
}

FILE *
fopen(const char *path, const char *mode) {
  int i, f, s = -1;
  for (i = 0; i < 4; i++) if (!streams[i].used) { s = i; break; }
  if (s < 0) return NULL;
  if (mode[0] == 'r') {
    f = find(path, 0);
    if (f < 0) return NULL;
    streams[s] = (mstream_t){1, f, 1, mode[1] == '+', 0};
#ifdef MEMFS_BUFFERED
    load(&streams[s]);
#endif
  } else if (mode[0] == 'w') {
    if (mutating()) { f = find(path, 1); if (f >= 0) memfs_files[f].len = 0; }
    else f = find(path, 0);
    if (f < 0) f = MEMFS_NFILES - 1;          /* dead process: handle on a scratch slot nobody reads */
    streams[s] = (mstream_t){1, f, mode[1] == '+', 1, 0};
#ifdef MEMFS_BUFFERED
    streams[s].len = 0; streams[s].dirty = 0;
#endif
  } else { /* "a": create if missing, write-only, positioned at the end */
    f = find(path, 0);
    if (f < 0) { if (mutating()) f = find(path, 1); if (f < 0) f = MEMFS_NFILES - 1; }
    streams[s] = (mstream_t){1, f, mode[1] == '+', 1, memfs_files[f].len};
#ifdef MEMFS_BUFFERED
    load(&streams[s]);
#endif
  }
  return handle(s);
}

size_t
fread(void *ptr, size_t size, size_t nmemb, FILE *fp) {
  mstream_t *st = stream(fp);
  size_t want = size * nmemb;
  if (!st->can_read) return 0;
  if (want == 0 || st->pos + want > F_LEN(st)) { st->pos = F_LEN(st); return 0; }
  memcpy(ptr, F_DATA(st) + st->pos, want);
  st->pos += want;
  return nmemb;
}

size_t
fwrite(const void *ptr, size_t size, size_t nmemb, FILE *fp) {
  mstream_t *st = stream(fp);
  size_t want = size * nmemb;
  if (!st->can_write) return 0;
#ifdef MEMFS_BUFFERED
  if (st->pos + want > MEMFS_CAP) return 0;
  memcpy(st->data + st->pos, ptr, want);
  st->pos += want;
  if (st->pos > st->len) st->len = st->pos;
  st->dirty = 1;
#else
  if (mutating()) {
    if (st->pos + want > MEMFS_CAP) return 0;
    memcpy(memfs_files[st->file].data + st->pos, ptr, want);
    st->pos += want;
    if (st->pos > memfs_files[st->file].len) memfs_files[st->file].len = st->pos;
  }
#endif
  return nmemb;
}

char *
fgets(char *s, int n, FILE *fp) {
  mstream_t *st = stream(fp);
  int k = 0;
  if (!st->can_read || st->pos >= F_LEN(st)) return NULL;
  while (k < n - 1 && st->pos < F_LEN(st)) {
    char c = (char)F_DATA(st)[st->pos++];
    s[k++] = c;
    if (c == '\n') break;
  }
  s[k] = 0;
  return s;
}

/* only the one format the persistence code uses: "%s %u\n" */
int
fprintf(FILE *fp, const char *fmt, ...) {
  mstream_t *st = stream(fp);
  va_list ap;
  const char *str;
  unsigned v;
  char digits[12];
  int nd = 0, i, total = 0;
  (void)fmt;
  va_start(ap, fmt);
  str = va_arg(ap, const char *);
  v = va_arg(ap, unsigned);
  va_end(ap);
  if (!st->can_write) return -1;
  do { digits[nd++] = (char)('0' + v % 10); v /= 10; } while (v && nd < 10);
#ifdef MEMFS_BUFFERED
  {
    for (i = 0; str[i] && st->pos < MEMFS_CAP; i++) st->data[st->pos++] = (uint8_t)str[i];
    if (st->pos < MEMFS_CAP) st->data[st->pos++] = ' ';
    for (i = nd - 1; i >= 0 && st->pos < MEMFS_CAP; i--) st->data[st->pos++] = (uint8_t)digits[i];
    if (st->pos < MEMFS_CAP) st->data[st->pos++] = '\n';
    if (st->pos > st->len) st->len = st->pos;
    st->dirty = 1;
  }
#else
  if (mutating()) {
    memfs_file_t *f = &memfs_files[st->file];
    for (i = 0; str[i] && st->pos < MEMFS_CAP; i++) f->data[st->pos++] = (uint8_t)str[i];
    if (st->pos < MEMFS_CAP) f->data[st->pos++] = ' ';
    for (i = nd - 1; i >= 0 && st->pos < MEMFS_CAP; i--) f->data[st->pos++] = (uint8_t)digits[i];
    if (st->pos < MEMFS_CAP) f->data[st->pos++] = '\n';
    if (st->pos > f->len) f->len = st->pos;
  }
#endif
  total = nd + 2;
  return total;
}

#ifdef MEMFS_BUFFERED
int fflush(FILE *fp) { if (stream(fp)->can_write) commit(stream(fp)); return 0; }
int fclose(FILE *fp) { if (stream(fp)->can_write) commit(stream(fp)); stream(fp)->used = 0; return 0; }
#else
int fflush(FILE *fp) { (void)fp; return 0; }
int fclose(FILE *fp) { stream(fp)->used = 0; return 0; }
#endif

int
rename(const char *oldp, const char *newp) {
  if (mutating()) {
    int o = find(oldp, 0), n = find(newp, 0);
    if (o < 0) return -1;
    if (n >= 0 && n != o) memfs_files[n].exists = 0;
    strncpy(memfs_files[o].name, newp, MEMFS_NAME - 1);
    memfs_files[o].name[MEMFS_NAME - 1] = 0;
  }
  return 0;
}

int
remove(const char *path) {
  if (mutating()) {
    int f = find(path, 0);
    if (f >= 0) memfs_files[f].exists = 0;
  }
  return 0;
}
