#ifndef MEMFS_H
#define MEMFS_H
#include <stddef.h>
#include <stdint.h>
#define MEMFS_NFILES 3
#ifndef MEMFS_CAP
#define MEMFS_CAP 96
#endif
#define MEMFS_NAME 12
typedef struct { int exists; char name[MEMFS_NAME]; size_t len; uint8_t data[MEMFS_CAP]; } memfs_file_t;
extern memfs_file_t memfs_files[MEMFS_NFILES];
extern int memfs_ops, memfs_crash_at, memfs_frozen;
void memfs_reset(void);
#endif
