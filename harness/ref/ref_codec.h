/* ref_codec.h - independent reference for the CoAP wire format.
 * Written from RFC 7252 section 3 / 3.1 / 5.10, RFC 8323 section 3.2-3.3, 4.2, 5, RFC 8974 section 2.1,
 * RFC 7641, RFC 7959, RFC 7967, RFC 8613, RFC 8768, RFC 9175 (option length table) - not from libcoap.
 */
#ifndef REF_CODEC_H
#define REF_CODEC_H
#include <stdint.h>
#include <stddef.h>

#define REF_UDP 0
#define REF_TCP 1
#define REF_WS 2

/* RFC 7252 5.10 gives Uri-Query 0-255 */
#ifndef REF_URI_QUERY_MIN
#define REF_URI_QUERY_MIN 0
#endif

#ifndef REF_MAX_OPTS
#define REF_MAX_OPTS 8
#endif

typedef struct {
  uint32_t number;
  uint32_t length;
  uint32_t voff; /* offset of the value in the message */
} ref_opt_t;

typedef struct {
  uint8_t type, code;
  uint16_t mid;
  uint32_t hdr_size;  /* bytes before the token field (incl. length/extended length on TCP) */
  uint32_t tkl;       /* token length (RFC 8974: 0..65804) */
  uint32_t tok_off;   /* offset of first token byte in the message */
  uint32_t opt_off;   /* offset of first option byte */
  uint32_t nopts;
  ref_opt_t opts[REF_MAX_OPTS];
  uint32_t max_opt;
  uint32_t payload_off, payload_len; /* payload_len == 0: no payload */
} ref_msg_t;

/* one option header. Returns header size (1..5) or 0 if the header is not decodable within avail bytes or uses
 * a reserved nibble. The payload marker 0xFF is not an option (returns 0). delta/length are exact (up to 65804). */
size_t ref_opt_header(const uint8_t *p, size_t avail, uint32_t *delta, uint32_t *length);

/* minimal encoding of an option header; returns size (1..5). out must have 5 bytes */
size_t ref_opt_encode_header(uint8_t *out, uint32_t delta, uint32_t length);

/* per-option length limits. code is the message code (class 7 selects the RFC 8323 signalling tables) */
int ref_opt_length_ok(uint8_t code, uint32_t number, uint32_t length);

/* whole message. Returns 1 iff well-formed; fills m (options beyond REF_MAX_OPTS are validated but not stored,
 * nopts still counts them). For REF_TCP the caller supplies exactly the bytes of one message (n). */
int ref_decode(int proto, const uint8_t *b, size_t n, ref_msg_t *m);

/* TCP: total message size announced by the first bytes (0 if fewer than needed are available) */
size_t ref_tcp_total_size(const uint8_t *b, size_t avail);

/* header encoder: writes the bytes that precede the token field (UDP 4; TCP 2/3/4/6; WS 2) plus the RFC 8974
 * token-length extension bytes into out (<= 8 bytes); returns their total count. body_len = options+payload
 * bytes incl. marker. */
size_t ref_encode_header(int proto, uint8_t type, uint8_t code, uint16_t mid, uint32_t tkl, uint32_t body_len,
                         uint8_t *out, uint32_t *hdr_size);
#endif
