/* ref_codec.c - see ref_codec.h. Deliberately written in a different style from libcoap (offset arithmetic on
 * 32/64-bit integers, no pointer stepping, no narrow integer types) so that shared mistakes are unlikely. */
#include "ref/ref_codec.h"

static int
ext_value(uint32_t nib, const uint8_t *p, size_t avail, size_t *pos, uint32_t *out) {
  if (nib < 13) {
    *out = nib;
    return 1;
  }
  if (nib == 13) {
    if (*pos + 1 > avail) return 0;
    *out = 13u + p[*pos];
    *pos += 1;
    return 1;
  }
  if (nib == 14) {
    if (*pos + 2 > avail) return 0;
    *out = 269u + ((uint32_t)p[*pos] << 8) + p[*pos + 1];
    *pos += 2;
    return 1;
  }
  return 0; /* 15: reserved */
}

size_t
ref_opt_header(const uint8_t *p, size_t avail, uint32_t *delta, uint32_t *length) {
  size_t pos = 1;
  if (avail < 1) return 0;
  if (p[0] == 0xFF) return 0;
  /* RFC 7252 3.1: extended delta bytes come first, then extended length bytes */
  if (!ext_value((uint32_t)p[0] >> 4, p, avail, &pos, delta)) return 0;
  if (!ext_value((uint32_t)p[0] & 15u, p, avail, &pos, length)) return 0;
  return pos;
}

static size_t
put_ext(uint8_t *out, size_t pos, uint32_t v) {
  if (v < 13) return pos;
  if (v < 269) {
    out[pos] = (uint8_t)(v - 13);
    return pos + 1;
  }
  out[pos] = (uint8_t)((v - 269) >> 8);
  out[pos + 1] = (uint8_t)((v - 269) & 0xff);
  return pos + 2;
}

static uint8_t
nibble_of(uint32_t v) {
  return v < 13 ? (uint8_t)v : (v < 269 ? 13 : 14);
}

size_t
ref_opt_encode_header(uint8_t *out, uint32_t delta, uint32_t length) {
  size_t pos = 1;
  out[0] = (uint8_t)((nibble_of(delta) << 4) | nibble_of(length));
  pos = put_ext(out, pos, delta);
  pos = put_ext(out, pos, length);
  return pos;
}

static int
in_range(uint32_t v, uint32_t lo, uint32_t hi) {
  return v >= lo && v <= hi;
}

int
ref_opt_length_ok(uint8_t code, uint32_t number, uint32_t length) {
  if ((code >> 5) == 7) {
    /* RFC 8323 section 5 (+ RFC 8974 for option 6 of CSM). Unknown critical (odd) signalling options make the
     * message unprocessable (5.2); unknown elective ones are ignored. */
    switch (code) {
    case 0xE1: /* 7.01 CSM */
      if (number == 2) return length <= 4;
      if (number == 4) return length == 0;
      if (number == 6) return length <= 3;
      return (number & 1) == 0;
    case 0xE2: /* 7.02 Ping */
    case 0xE3: /* 7.03 Pong */
      if (number == 2) return length == 0;
      return (number & 1) == 0;
    case 0xE4: /* 7.04 Release */
      if (number == 2) return in_range(length, 1, 255);
      if (number == 4) return length <= 3;
      return (number & 1) == 0;
    case 0xE5: /* 7.05 Abort */
      if (number == 2) return length <= 2;
      return (number & 1) == 0;
    default:
      return 1;
    }
  }
  switch (number) {
  case 1: return length <= 8;             /* If-Match      0-8   RFC 7252 5.10 */
  case 3: return in_range(length, 1, 255);/* Uri-Host      1-255 */
  case 4: return in_range(length, 1, 8);  /* ETag          1-8 */
  case 5: return length == 0;             /* If-None-Match 0 */
  case 6: return length <= 3;             /* Observe       0-3   RFC 7641 */
  case 7: return length <= 2;             /* Uri-Port      0-2 */
  case 8: return length <= 255;           /* Location-Path 0-255 */
  case 9: return length <= 255;           /* OSCORE        0-255 RFC 8613 */
  case 11: return length <= 255;          /* Uri-Path      0-255 */
  case 12: return length <= 2;            /* Content-Format 0-2 */
  case 14: return length <= 4;            /* Max-Age       0-4 */
  case 15: return REF_URI_QUERY_MIN <= length && length <= 255; /* Uri-Query */
  case 16: return length == 1;            /* Hop-Limit     1     RFC 8768 */
  case 17: return length <= 2;            /* Accept        0-2 */
  case 20: return length <= 255;          /* Location-Query 0-255 */
  case 23: return length <= 3;            /* Block2        0-3   RFC 7959 */
  case 27: return length <= 3;            /* Block1        0-3 */
  case 28: return length <= 4;            /* Size2         0-4 */
  case 35: return in_range(length, 1, 1034); /* Proxy-Uri  1-1034 */
  case 39: return in_range(length, 1, 255);  /* Proxy-Scheme 1-255 */
  case 60: return length <= 4;            /* Size1         0-4 */
  case 252: return length <= 40;          /* Echo          (RFC 9175: 1-40; see DESIGN 4.3 on the lower bound) */
  case 258: return length <= 1;           /* No-Response   0-1   RFC 7967 */
  case 292: return length <= 8;           /* Request-Tag   0-8   RFC 9175 */
  default: return 1;
  }
}

size_t
ref_tcp_total_size(const uint8_t *b, size_t avail) {
  uint32_t lenn, tkln;
  size_t hdr, body, tok;
  if (avail < 1) return 0;
  lenn = b[0] >> 4;
  tkln = b[0] & 15u;
  if (lenn < 13) {
    hdr = 2; body = lenn;
  } else if (lenn == 13) {
    if (avail < 2) return 0;
    hdr = 3; body = 13u + b[1];
  } else if (lenn == 14) {
    if (avail < 3) return 0;
    hdr = 4; body = 269u + ((size_t)b[1] << 8) + b[2];
  } else {
    if (avail < 5) return 0;
    hdr = 6; body = 65805u + ((size_t)b[1] << 24) + ((size_t)b[2] << 16) + ((size_t)b[3] << 8) + b[4];
  }
  if (tkln < 13) tok = tkln;
  else if (tkln == 13) {
    if (avail < hdr + 1) return 0;
    tok = 1 + 13u + b[hdr];
  } else if (tkln == 14) {
    if (avail < hdr + 2) return 0;
    tok = 2 + 269u + ((size_t)b[hdr] << 8) + b[hdr + 1];
  } else tok = 0; /* reserved: message is malformed anyway */
  return hdr + tok + body;
}

int
ref_decode(int proto, const uint8_t *b, size_t n, ref_msg_t *m) {
  size_t pos, i;
  uint32_t tkn, number = 0;
  m->nopts = 0; m->max_opt = 0; m->payload_off = 0; m->payload_len = 0;
  if (proto == REF_UDP) {
    if (n < 4) return 0;
    if ((b[0] >> 6) != 1) return 0;            /* version */
    m->type = (b[0] >> 4) & 3;
    m->code = b[1];
    m->mid = (uint16_t)((b[2] << 8) | b[3]);
    m->hdr_size = 4;
  } else if (proto == REF_TCP) {
    uint32_t lenn;
    if (n < 2) return 0;
    lenn = b[0] >> 4;
    m->hdr_size = lenn < 13 ? 2 : (lenn == 13 ? 3 : (lenn == 14 ? 4 : 6));
    if (n < m->hdr_size) return 0;
    m->type = 0; m->mid = 0;
    m->code = b[m->hdr_size - 1];
  } else {
    if (n < 2) return 0;
    m->hdr_size = 2;
    m->type = 0; m->mid = 0;
    m->code = b[1];
  }
  tkn = b[0] & 15u;
  pos = m->hdr_size;
  if (tkn < 13) m->tkl = tkn;
  else if (tkn == 13) {
    if (pos + 1 > n) return 0;
    m->tkl = 13u + b[pos];
    pos += 1;
  } else if (tkn == 14) {
    if (pos + 2 > n) return 0;
    m->tkl = 269u + ((uint32_t)b[pos] << 8) + b[pos + 1];
    pos += 2;
  } else return 0;
  m->tok_off = (uint32_t)pos;
  if (pos + m->tkl > n) return 0;
  pos += m->tkl;
  m->opt_off = (uint32_t)pos;
  if (m->code == 0) {
    /* Empty message: nothing after the header, no token (RFC 7252 4.1, RFC 8323 3.4) */
    return (tkn == 0 && pos == n);
  }
  for (i = 0; pos < n; i++) {
    uint32_t d, l;
    size_t h;
    if (b[pos] == 0xFF) {
      if (pos + 1 >= n) return 0;              /* marker without payload */
      m->payload_off = (uint32_t)(pos + 1);
      m->payload_len = (uint32_t)(n - pos - 1);
      break;
    }
    h = ref_opt_header(b + pos, n - pos, &d, &l);
    if (h == 0) return 0;
    if ((uint64_t)number + d > 65535u) return 0;
    number += d;
    if (pos + h + (size_t)l > n) return 0;       /* truncated value */
    if (!ref_opt_length_ok(m->code, number, l)) return 0;
    if (m->nopts < REF_MAX_OPTS) {
      m->opts[m->nopts].number = number;
      m->opts[m->nopts].length = l;
      m->opts[m->nopts].voff = (uint32_t)(pos + h);
    }
    m->nopts++;
    pos += h + l;
  }
  m->max_opt = number;
  return 1;
}

size_t
ref_encode_header(int proto, uint8_t type, uint8_t code, uint16_t mid, uint32_t tkl, uint32_t body_len,
                  uint8_t *out, uint32_t *hdr_size) {
  size_t pos;
  uint8_t tkn = tkl < 13 ? (uint8_t)tkl : (tkl < 269 ? 13 : 14);
  if (proto == REF_UDP) {
    out[0] = (uint8_t)((1u << 6) | ((type & 3u) << 4) | tkn);
    out[1] = code;
    out[2] = (uint8_t)(mid >> 8);
    out[3] = (uint8_t)mid;
    pos = 4;
  } else if (proto == REF_WS) {
    out[0] = tkn; /* Len = 0 (RFC 8323 4.2) */
    out[1] = code;
    pos = 2;
  } else {
    if (body_len < 13) {
      out[0] = (uint8_t)((body_len << 4) | tkn);
      pos = 1;
    } else if (body_len < 269) {
      out[0] = (uint8_t)(0xD0 | tkn);
      out[1] = (uint8_t)(body_len - 13);
      pos = 2;
    } else if (body_len < 65805u) {
      out[0] = (uint8_t)(0xE0 | tkn);
      out[1] = (uint8_t)((body_len - 269) >> 8);
      out[2] = (uint8_t)(body_len - 269);
      pos = 3;
    } else {
      uint32_t v = body_len - 65805u;
      out[0] = (uint8_t)(0xF0 | tkn);
      out[1] = (uint8_t)(v >> 24);
      out[2] = (uint8_t)(v >> 16);
      out[3] = (uint8_t)(v >> 8);
      out[4] = (uint8_t)v;
      pos = 5;
    }
    out[pos++] = code;
  }
  *hdr_size = (uint32_t)pos;
  if (tkn == 13) out[pos++] = (uint8_t)(tkl - 13);
  else if (tkn == 14) {
    out[pos++] = (uint8_t)((tkl - 269) >> 8);
    out[pos++] = (uint8_t)(tkl - 269);
  }
  return pos;
}
