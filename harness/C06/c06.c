/* C06 - Confirmable retransmission schedule and single outcome (DESIGN 4.6) */
#include "common/netenv.h"

/* ---- L1: coap_calc_timeout for every random byte and every session setting ------------------------------------ */
#ifndef AT_F
#define AT_F 0
#endif
#ifndef RF_F
#define RF_F 500
#endif
VERIF_HARNESS(c06_l1_calc_timeout) {
  /* the fractional parts (1/1000) are concrete per job: the library divides them by 1000 when converting to Q.6,
   * and division of a symbolic value stalls the SAT back end; integer parts and the random byte are symbolic */
  VERIF_IN(uint8_t, r);
  VERIF_IN(uint16_t, at_i);
  VERIF_IN(uint16_t, rf_i);
  VERIF_ASSUME(at_i >= 1 && at_i <= 60);     /* ACK_TIMEOUT 1.xxx .. 60.xxx s */
  VERIF_ASSUME(rf_i >= 1 && rf_i <= 4);      /* ACK_RANDOM_FACTOR 1.xxx .. 4.xxx */
  ne_init();
  ne_sess.ack_timeout = (coap_fixed_point_t){at_i, AT_F};
  ne_sess.ack_random_factor = (coap_fixed_point_t){rf_i, RF_F};
  uint32_t t = coap_calc_timeout(&ne_sess, r);
  /* exact interval in ticks (tick = 1 ms): [AT, AT*RF]; AT in ms, RF in 1/1000; compared cross-multiplied so that
   * the oracle needs no division; all products fit 64 bit trivially */
  uint64_t at = (uint64_t)at_i * 1000u + AT_F;     /* <= 60999 */
  uint64_t rf = (uint64_t)rf_i * 1000u + RF_F;     /* <= 4999  */
  /* Q.6 tolerance: each parameter is rounded to 1/64 before use (relative error <= 1/128 each for values >= 1),
   * so the product is within 1/60 of the exact one; plus 2 ticks for the final roundings */
  VERIF_ASSERT(((uint64_t)t + 2) * 64 >= at * 63, "L1 initial timeout not below ACK_TIMEOUT (up to one Q.6 quantum)");
  VERIF_ASSERT((uint64_t)t * 1000 * 60 <= (at * rf) * 61 + 2 * 1000 * 60, "L1 initial timeout not above ACK_TIMEOUT x ACK_RANDOM_FACTOR (up to Q.6 rounding)");
#if (AT_F % 125 == 0) && (RF_F % 125 == 0)
  /* parameters representable in Q.6 (multiples of 1/8, e.g. the RFC defaults 2 s / 1.5): exact up to final rounding */
  VERIF_ASSERT((uint64_t)t + 1 >= at && ((uint64_t)t - 1) * 1000 <= at * rf, "L1 exact interval for Q.6-representable parameters");
#endif
  {
    VERIF_IN(uint8_t, r2);
    uint32_t t2 = coap_calc_timeout(&ne_sess, r2);
    if (r2 >= r) VERIF_ASSERT(t2 >= t, "L1 timeout is monotone in the random draw");
  }
#ifdef WITNESS
  if (r == 255 && at_i == 2 && rf_i == 1) VERIF_REACH("L1 upper end reached");
#endif
}

/* ---- S4: queue primitives from an arbitrary queue of QN nodes ---------------------------------------------------- */
#ifndef QN
#define QN 2
#endif
static coap_queue_t qn[4];

static void
build_queue(coap_tick_t *t, int n) {
  int i;
  ne_ctx.sendqueue = n ? &qn[0] : NULL;
  for (i = 0; i < n; i++) {
    memset(&qn[i], 0, sizeof(qn[i]));
    qn[i].t = t[i];
    qn[i].next = i + 1 < n ? &qn[i + 1] : NULL;
    qn[i].session = (i & 1) ? &ne_sess2 : &ne_sess;
  }
}

VERIF_HARNESS(c06_s4_insert_pop) {
  ne_init();
  coap_tick_t t[4];
  int i;
  VERIF_IN(uint64_t, t0); VERIF_IN(uint64_t, t1); VERIF_IN(uint64_t, t2); VERIF_IN(uint64_t, tn);
  VERIF_IN(uint64_t, base);
  VERIF_ASSUME(t0 < (1ull << 40) && t1 < (1ull << 40) && t2 < (1ull << 40) && tn < (1ull << 42) && base < (1ull << 50));
  t[0] = t0; t[1] = t1; t[2] = t2;
  build_queue(t, QN);
  ne_ctx.sendqueue_basetime = base;
  coap_tick_t dl[4];
  for (i = 0; i < QN; i++) dl[i] = ne_deadline(&qn[i]);
  /* insert a new node whose t is relative to basetime */
  static coap_queue_t nn;
  memset(&nn, 0, sizeof(nn));
  nn.t = tn;
  coap_insert_node(&ne_ctx.sendqueue, &nn);
  VERIF_ASSERT(ne_queue_len(ne_ctx.sendqueue) == QN + 1, "S4 insert: queue grows by one");
  VERIF_ASSERT(ne_deadline(&nn) == base + tn, "S4 insert: new node fires at basetime + t");
  for (i = 0; i < QN; i++) VERIF_ASSERT(ne_deadline(&qn[i]) == dl[i], "S4 insert: deadlines of the other nodes unchanged");
  {
    /* sorted by deadline */
    coap_queue_t *q = ne_ctx.sendqueue;
    coap_tick_t prev = 0, acc = base;
    for (i = 0; i < QN + 1 && q; i++, q = q->next) { acc += q->t; VERIF_ASSERT(acc >= prev, "S4 insert: queue ordered by deadline"); prev = acc; }
  }
  /* pop: head leaves, the rest keep their deadlines */
  coap_tick_t dnn = ne_deadline(&nn);
  coap_queue_t *head = ne_ctx.sendqueue;
  coap_tick_t dhead = ne_deadline(head);
  coap_queue_t *p = coap_pop_next(&ne_ctx);
  VERIF_ASSERT(p == head && p->next == NULL, "S4 pop: returns the head, detached");
  VERIF_ASSERT(ne_queue_len(ne_ctx.sendqueue) == QN, "S4 pop: queue shrinks by one");
  for (i = 0; i < QN; i++) if (&qn[i] != head) VERIF_ASSERT(ne_deadline(&qn[i]) == dl[i], "S4 pop: deadlines of the remaining nodes unchanged");
  if (&nn != head) VERIF_ASSERT(ne_deadline(&nn) == dnn, "S4 pop: deadline of the inserted node unchanged");
  (void)dhead;
  VERIF_REACH("S4 end");
}

VERIF_HARNESS(c06_s4_remove) {
  ne_init();
  coap_tick_t t[4];
  int i;
  VERIF_IN(uint64_t, t0); VERIF_IN(uint64_t, t1); VERIF_IN(uint64_t, t2);
  VERIF_IN(uint16_t, m0); VERIF_IN(uint16_t, m1); VERIF_IN(uint16_t, m2); VERIF_IN(uint16_t, want);
  VERIF_IN(_Bool, want_s2);
  VERIF_ASSUME(t0 < (1ull << 40) && t1 < (1ull << 40) && t2 < (1ull << 40));
  t[0] = t0; t[1] = t1; t[2] = t2;
  build_queue(t, QN);
  ne_ctx.sendqueue_basetime = 1000;
  qn[0].id = m0; qn[1].id = m1; qn[2].id = m2;
  coap_tick_t dl[4];
  for (i = 0; i < QN; i++) dl[i] = ne_deadline(&qn[i]);
  coap_session_t *ws = want_s2 ? &ne_sess2 : &ne_sess;
  int exp = -1;
  for (i = QN - 1; i >= 0; i--) if (qn[i].session == ws && qn[i].id == want) exp = i;   /* first match */
  coap_queue_t *out = NULL;
  int r = coap_remove_from_queue(&ne_ctx.sendqueue, ws, want, &out);
  VERIF_ASSERT((r != 0) == (exp >= 0), "S4 remove: found iff a node with that (session, mid) is queued");
  if (r) {
    VERIF_ASSERT(out == &qn[exp], "S4 remove: the first matching node is returned");
    VERIF_ASSERT(!ne_in_queue(ne_ctx.sendqueue, out) && ne_queue_len(ne_ctx.sendqueue) == QN - 1, "S4 remove: node no longer queued");
  } else {
    VERIF_ASSERT(ne_queue_len(ne_ctx.sendqueue) == QN, "S4 remove: queue unchanged when nothing matches");
  }
  for (i = 0; i < QN; i++) if (!(r && i == exp)) VERIF_ASSERT(ne_deadline(&qn[i]) == dl[i], "S4 remove: deadlines of the other nodes unchanged");
#ifdef WITNESS
  if (r && exp == QN - 1) VERIF_REACH("S4 remove of the last node");
#endif
}

/* ---- S2: coap_retransmit, one step ------------------------------------------------------------------------------ */
#ifndef OTHER
#define OTHER 0
#endif
VERIF_HARNESS(c06_s2_retransmit) {
  ne_init();
  VERIF_IN(uint16_t, mid);
  VERIF_IN(uint32_t, timeout);
  VERIF_IN(uint8_t, cnt);
  VERIF_IN(uint8_t, maxr);
  VERIF_IN(uint8_t, con_active);
  VERIF_IN(uint8_t, nstart);
  VERIF_IN(uint64_t, base);
  VERIF_IN(uint64_t, now);
  VERIF_IN(uint64_t, other_t);
  VERIF_IN_BUF(tok, 4);
  VERIF_ASSUME(timeout >= 1 && timeout <= 300000);      /* <= 61 s x 4.999 in ticks */
  VERIF_ASSUME(maxr <= 8 && cnt <= maxr);               /* representation invariant: retransmit_cnt <= max_retransmit */
  VERIF_ASSUME(nstart >= 1 && nstart <= 4 && con_active >= 1 && con_active <= nstart);   /* this node is in flight */
  VERIF_ASSUME(base < (1ull << 50) && now >= base && now - base < (1ull << 40) && other_t < (1ull << 40));
  ne_sess.max_retransmit = maxr;
  ne_sess.con_active = con_active;
  ne_sess.nstart = nstart;
  env_now = now;
  ne_ctx.sendqueue_basetime = base;
  coap_pdu_t *pdu = ne_make_pdu(COAP_MESSAGE_CON, 1, mid, tok, 4);
  coap_queue_t *node = ne_make_node(&ne_sess, pdu, timeout, cnt);   /* popped from the queue by the timer scan */
#if OTHER
  coap_pdu_t *opdu = ne_make_pdu(COAP_MESSAGE_CON, 1, (uint16_t)(mid + 1), tok, 4);
  coap_queue_t *other = ne_make_node(&ne_sess2, opdu, 2000, 0);
  other->t = other_t;
  ne_ctx.sendqueue = other;
  coap_tick_t other_dl = ne_deadline(other);
#endif
  unsigned ref_before = ne_sess.ref;
  const uint8_t *wire = pdu->token - pdu->hdr_size;
  size_t wire_len = pdu->used_size + pdu->hdr_size;
  coap_mid_t r = coap_retransmit(&ne_ctx, node);
  if (cnt < maxr) {
    VERIF_ASSERT(ne_tx_count == 1, "S2 exactly one transmission per retransmission event");
    VERIF_ASSERT(ne_tx_ptr[0] == wire && ne_tx_len[0] == wire_len && ne_tx_sess[0] == &ne_sess, "S2 the stored datagram is retransmitted byte-identically (same buffer, same length)");
    VERIF_ASSERT(node->retransmit_cnt == cnt + 1, "S2 retransmission counter incremented");
    VERIF_ASSERT(ne_in_queue(ne_ctx.sendqueue, node), "S2 node back in the send queue");
    VERIF_ASSERT(ne_deadline(node) == now + ((coap_tick_t)timeout << (cnt + 1)), "S2 next deadline = now + T * 2^(retransmissions so far)");
    VERIF_ASSERT(ne_nack_count == 0, "S2 no NACK while retransmissions remain");
    VERIF_ASSERT(r == mid, "S2 returns the message id");
    VERIF_ASSERT(ne_sess.con_active == con_active, "S2 in-flight count unchanged by a retransmission");
    VERIF_ASSERT(ne_sess.ref == ref_before, "S2 session reference held by the node unchanged");
  } else {
    VERIF_ASSERT(ne_tx_count == 0, "S2 nothing is transmitted after MAX_RETRANSMIT retransmissions");
    VERIF_ASSERT(ne_nack_count == 1 && ne_nack_reason == COAP_NACK_TOO_MANY_RETRIES && ne_nack_mid == mid, "S2 exactly one NACK(TOO_MANY_RETRIES) for the given-up message");
    VERIF_ASSERT(!ne_in_queue(ne_ctx.sendqueue, node), "S2 given-up node is not queued any more");
    VERIF_ASSERT(r == COAP_INVALID_MID, "S2 give-up reported");
    VERIF_ASSERT(ne_sess.con_active == con_active - 1, "S2 give-up frees one NSTART slot");
    VERIF_ASSERT(ne_sess.ref == ref_before - 1, "S2 give-up releases the node's session reference exactly once");
  }
#if OTHER
  VERIF_ASSERT(ne_in_queue(ne_ctx.sendqueue, other) && ne_deadline(other) == other_dl, "S2 other queued message keeps its deadline");
#endif
#ifdef WITNESS
#ifdef WIT_GIVEUP
  if (cnt == maxr) VERIF_REACH("S2 give-up path");
#else
  if (cnt < maxr && cnt >= 2) VERIF_REACH("S2 third retransmission");
#endif
#endif
}

/* ---- S3: timer scan of coap_io_prepare_io_lkd (coap_retransmit replaced by a counting stub) -------------------- */
#ifdef STUB_RETRANSMIT
static int rt_calls;
static coap_queue_t *rt_node[4];
coap_mid_t
coap_retransmit(coap_context_t *context, coap_queue_t *node) {
  (void)context;
  if (rt_calls < 4) rt_node[rt_calls] = node;
  rt_calls++;
  return node->id;
}
VERIF_HARNESS(c06_s3_timer_scan) {
  ne_init();
  coap_tick_t t[4];
  int i;
  VERIF_IN(uint64_t, t0); VERIF_IN(uint64_t, t1); VERIF_IN(uint64_t, t2);
  VERIF_IN(uint64_t, base); VERIF_IN(uint64_t, now);
  /* relative times below 2^29 ticks (6 days): the reported wait is an unsigned int of milliseconds */
  VERIF_ASSUME(t0 < (1ull << 29) && t1 < (1ull << 29) && t2 < (1ull << 29));
  VERIF_ASSUME(base < (1ull << 50) && now >= base && now - base < (1ull << 30));
  t[0] = t0; t[1] = t1; t[2] = t2;
  build_queue(t, QN);
  ne_ctx.sendqueue_basetime = base;
  coap_tick_t dl[4];
  for (i = 0; i < QN; i++) dl[i] = ne_deadline(&qn[i]);
  coap_socket_t *socks[1];
  unsigned int ns = 0;
  rt_calls = 0;
  unsigned int wait = coap_io_prepare_io_lkd(&ne_ctx, socks, 1, &ns, now);
  int due = 0;
  for (i = 0; i < QN; i++) if (dl[i] <= now) due++;
  VERIF_ASSERT(rt_calls == due, "S3 every message whose deadline has passed is handed to retransmission exactly once, no other");
  for (i = 0; i < QN; i++)
    if (i < due) VERIF_ASSERT(rt_node[i] == &qn[i], "S3 due messages are processed in deadline order");
  if (due < QN) {
    VERIF_ASSERT(wait > 0, "S3 a positive wait is reported while a message is pending");
    VERIF_ASSERT((coap_tick_t)wait <= dl[due] - now, "S3 reported wait never exceeds the time to the earliest pending deadline");
    VERIF_ASSERT(ne_deadline(&qn[due]) == dl[due], "S3 pending messages keep their deadlines");
  }
#ifdef WITNESS
  if (due == 1 && QN >= 2) VERIF_REACH("S3 one due, one pending");
  if (QN < 2) VERIF_REACH("S3 end");
#endif
}
#endif

/* ---- S3r: the timer scan with the REAL coap_retransmit, one message in the queue, the I/O step possibly (very) late ------------
 * However late coap_io_prepare_io_lkd() is called, one call retransmits a due message once: the next copy is T * 2^k after THIS
 * transmission (RFC 7252 4.2 back-off measured from each firing), never back to back in the same call. */
#ifndef STUB_RETRANSMIT
VERIF_HARNESS(c06_s3_timer_fire_real) {
  ne_init();
  VERIF_IN(uint16_t, mid);
  VERIF_IN(uint32_t, timeout);
  VERIF_IN(uint8_t, cnt);
  VERIF_IN(uint64_t, base);
  VERIF_IN(uint64_t, rel);
  VERIF_IN(uint64_t, late);
  VERIF_IN_BUF(tok, 4);
  VERIF_ASSUME(timeout >= 1 && timeout <= 300000 && cnt <= 2);
  VERIF_ASSUME(base < (1ull << 50) && rel < (1ull << 30) && late < (1ull << 32));
  ne_sess.max_retransmit = 4;
  ne_sess.con_active = 1;
  coap_tick_t now = base + rel + late;               /* the message was due at base + rel; the step runs `late` ticks after that */
  env_now = now;
  ne_ctx.sendqueue_basetime = base;
  coap_pdu_t *pdu = ne_make_pdu(COAP_MESSAGE_CON, 1, mid, tok, 4);
  coap_queue_t *node = ne_make_node(&ne_sess, pdu, timeout, cnt);
  node->t = rel;
  ne_ctx.sendqueue = node;
  coap_socket_t *socks[1];
  unsigned int ns = 0;
  unsigned int wait = coap_io_prepare_io_lkd(&ne_ctx, socks, 1, &ns, now);
  VERIF_ASSERT(ne_tx_count == 1, "S3r one I/O step retransmits a due message exactly once, however late the step runs");
  VERIF_ASSERT(node->retransmit_cnt == cnt + 1 && ne_in_queue(ne_ctx.sendqueue, node), "S3r the message is queued again with its counter advanced by one");
  VERIF_ASSERT(ne_deadline(node) == now + ((coap_tick_t)timeout << (cnt + 1)), "S3r the next retransmission is T * 2^k after this one (back-off measured from each firing)");
  VERIF_ASSERT(wait > 0 && (coap_tick_t)wait <= ((coap_tick_t)timeout << (cnt + 1)), "S3r the reported wait does not sleep past the next retransmission");
#ifdef WITNESS
  if (late > ((coap_tick_t)timeout << (cnt + 1))) VERIF_REACH("S3r step later than the next back-off interval");
#endif
}
#endif
