/* C14-B2 / C15-B2: the server half of coap_oscore_decrypt_pdu() (coap_oscore.c) on a protected request of concrete layout, with the
 * AEAD replaced by an ideal-primitive model (DESIGN 4.14): coap_crypto_aead_decrypt() records the key, nonce and AAD it is given,
 * "authenticates" according to a symbolic verdict and returns ciphertext-minus-tag as plaintext. Under that model
 *   "only messages protected with the right context are accepted, bound to the right request"
 * reduces to: key / nonce / AAD handed to the AEAD are exactly the RFC 8613 5.2 / 5.4 functions of (recipient context, kid, Partial IV),
 * and what is stored for protecting the RESPONSE (association: aad, nonce, partial_iv) are those same values - also when a later
 * request re-uses the token (observe cancel / re-register) and the association is refreshed.
 * C15 at the call site: a Partial IV that was accepted is refused when it arrives again; a message that fails authentication
 * leaves the replay state exactly as it was; a genuine message is still accepted afterwards.
 * Message: CON, code 0.02 (POST), 2-byte token (concrete: key of the real uthash association table), OSCORE option {flags 0x09, 1-byte
 * Partial IV, 1-byte kid}, payload = ciphertext of {inner code, Uri-Path "a"} + 8-byte tag. Symbolic: Partial IVs, kid, mid, inner
 * code, tag, keys, common IV, AEAD verdicts, initial replay state. */
#include "coap3/coap_libcoap_build.h"
#include "oscore/oscore_context.h"
#include "oscore/oscore_cose.h"
#include "common/verif.h"
#include <stdlib.h>

#ifndef NDELIV
#define NDELIV 2
#endif
#ifndef B12
#define B12 0          /* Appendix B.1.2 (Echo challenge) configured? */
#endif

/* ---- AEAD model ---------------------------------------------------------------------------------------------------- */
static int aead_calls, aead_verdict;
static uint8_t aead_icode;
static uint8_t a_key[16], a_nonce[13], a_aad[40];
static size_t a_keylen, a_aadlen, a_noncelen, a_taglen;
int
coap_crypto_aead_decrypt(const coap_crypto_param_t *params, coap_bin_const_t *data, coap_bin_const_t *aad, uint8_t *result, size_t *max_result_len) {
  size_t i;
  aead_calls++;
  a_keylen = params->params.aes.key.length;
  for (i = 0; i < 16 && i < a_keylen; i++) a_key[i] = params->params.aes.key.s[i];
  a_noncelen = 15 - params->params.aes.l;
  for (i = 0; i < 13; i++) a_nonce[i] = params->params.aes.nonce[i];
  a_taglen = params->params.aes.tag_len;
  a_aadlen = aad->length;
  for (i = 0; i < sizeof(a_aad) && i < aad->length; i++) a_aad[i] = aad->s[i];
  if (!aead_verdict) return 0;
  /* the plaintext the peer protected: {inner code, Uri-Path "a"} - concrete layout (it steers option insertion), symbolic code */
  result[0] = aead_icode; result[1] = 0xB1; result[2] = 'a';
  *max_result_len = data->length - a_taglen;
  return 1;
}
int coap_crypto_check_cipher_alg(cose_alg_t alg) { return alg == COSE_ALGORITHM_AES_CCM_16_64_128; }

/* ---- environment of the function ------------------------------------------------------------------------------------ */
static int err_calls, err_code, ack_calls, event_calls;
void __CPROVER_file_local_coap_oscore_c_build_and_send_error_pdu(coap_session_t *session, coap_pdu_t *rcvd, coap_pdu_code_t code, const char *diagnostic,
                                                                 uint8_t *echo_data, coap_bin_const_t *kid_context, int encrypt_oscore) {
  (void)session; (void)rcvd; (void)diagnostic; (void)echo_data; (void)kid_context; (void)encrypt_oscore;
  err_calls++; err_code = code;
}
coap_mid_t coap_send_ack_lkd(coap_session_t *session, const coap_pdu_t *request) { (void)session; (void)request; ack_calls++; return 0; }
int coap_handle_event_lkd(coap_context_t *context, coap_event_t event, coap_session_t *session) { (void)context; (void)event; (void)session; event_calls++; return 0; }
void coap_show_pdu(coap_log_t level, const coap_pdu_t *pdu) { (void)level; (void)pdu; }
void __CPROVER_file_local_coap_oscore_c_dump_cose(cose_encrypt0_t *cose, const char *message) { (void)cose; (void)message; }
void oscore_log_hex_value(coap_log_t level, const char *name, coap_bin_const_t *value) { (void)level; (void)name; (void)value; }
void oscore_log_int_value(coap_log_t level, const char *name, int value) { (void)level; (void)name; (void)value; }
void oscore_log_char_value(coap_log_t level, const char *name, const char *value) { (void)level; (void)name; (void)value; }
coap_lock_t global_lock;
int coap_started = 1;

/* ---- reference (RFC 8613 5.2 nonce, 5.4 AAD; RFC 8949 encodings written out for these sizes) ------------------------------ */
static void
ref_nonce(uint8_t *n, uint8_t kid, uint8_t piv, const uint8_t *civ) {
  int i;
  for (i = 0; i < 13; i++) n[i] = 0;
  n[0] = 1;              /* length of the sender id (kid) */
  n[7] = kid;            /* id left-padded to nonce length - 6 = 7 bytes: n[1..7] */
  n[12] = piv;           /* Partial IV left-padded to 5 bytes: n[8..12] */
  for (i = 0; i < 13; i++) n[i] ^= civ[i];
}
static size_t
ref_aad(uint8_t *a, uint8_t kid, uint8_t piv) {
  static const uint8_t head[11] = {0x83, 0x68, 'E', 'n', 'c', 'r', 'y', 'p', 't', '0', 0x40};
  size_t i, n = 0;
  for (i = 0; i < 11; i++) a[n++] = head[i];           /* ["Encrypt0", h'', */
  a[n++] = 0x49;                                       /*  bstr(9): external_aad = */
  a[n++] = 0x85; a[n++] = 0x01;                        /*   [ oscore_version 1, */
  a[n++] = 0x81; a[n++] = 0x0a;                        /*     [ alg AES-CCM-16-64-128 = 10 ], */
  a[n++] = 0x41; a[n++] = kid;                         /*     request_kid, */
  a[n++] = 0x41; a[n++] = piv;                         /*     request_piv, */
  a[n++] = 0x40;                                       /*     options h'' ] ] */
  return n;
}

static coap_context_t ctx;
static coap_session_t sess;
static oscore_ctx_t osc;
static oscore_recipient_ctx_t rcp;
static oscore_sender_ctx_t snd;
static uint8_t civ[13], rkey[16];
static const uint8_t tokb[2] = {0x51, 0x52};

static coap_pdu_t *
make_request(uint16_t mid, uint8_t piv, uint8_t kid, uint8_t icode, const uint8_t *tag) {
  uint8_t ov[3], ct[11];
  int i;
  coap_pdu_t *p = coap_pdu_init(COAP_MESSAGE_CON, COAP_REQUEST_CODE_POST, mid, 64);
  __CPROVER_assume(p != NULL);
  coap_add_token(p, 2, tokb);
  ov[0] = 0x09; ov[1] = piv; ov[2] = kid;               /* kid flag + Partial IV length 1 */
  coap_add_option_internal(p, COAP_OPTION_OSCORE, 3, ov);
  ct[0] = icode; ct[1] = 0xB1; ct[2] = 'a';             /* inner code, Uri-Path "a" */
  for (i = 0; i < 8; i++) ct[3 + i] = tag[i];
  coap_add_data(p, 11, ct);
  return p;
}

VERIF_HARNESS(c14_b2_decrypt) {
  VERIF_IN_BUF(civ_in, 13);
  VERIF_IN_BUF(rkey_in, 16);
  VERIF_IN(uint8_t, rid);
  VERIF_IN(uint8_t, init_state);
  VERIF_IN(uint64_t, last0);
  VERIF_IN(uint64_t, win0);
  static coap_bin_const_t b_civ = {13, civ}, b_rkey = {16, rkey}, b_rid, b_sid;
  static uint8_t ridb[1], sidb[1] = {7};
  int i, d;
  for (i = 0; i < 13; i++) civ[i] = civ_in[i];
  for (i = 0; i < 16; i++) rkey[i] = rkey_in[i];
  ridb[0] = rid;
  b_rid.length = 1; b_rid.s = ridb; b_sid.length = 1; b_sid.s = sidb;
  VERIF_ASSUME(init_state <= 1 && last0 < 200);
  /* representation invariant of an armed window: bit 0 = last_seq itself */
  VERIF_ASSUME(init_state == 1 || (win0 & 1));
  memset(&ctx, 0, sizeof(ctx)); memset(&sess, 0, sizeof(sess)); memset(&osc, 0, sizeof(osc)); memset(&rcp, 0, sizeof(rcp)); memset(&snd, 0, sizeof(snd));
  ctx.p_osc_ctx = &osc;
  sess.context = &ctx; sess.proto = COAP_PROTO_UDP; sess.mtu = 1152; sess.type = COAP_SESSION_TYPE_SERVER;
  osc.aead_alg = COSE_ALGORITHM_AES_CCM_16_64_128;
  osc.common_iv = &b_civ;
  osc.recipient_chain = &rcp;
  osc.sender_context = &snd;
  osc.mode = OSCORE_MODE_SINGLE;
  osc.replay_window_size = 32;
  osc.rfc8613_b_1_2 = B12;
  snd.sender_id = &b_sid;
  rcp.osc_ctx = &osc;
  rcp.recipient_id = &b_rid;
  rcp.recipient_key = &b_rkey;
  rcp.initial_state = init_state;
  rcp.last_seq = init_state ? 0 : last0;
  rcp.sliding_window = init_state ? 0 : win0;

  uint8_t acc_piv[NDELIV];
  int acc_n = 0;
  for (d = 0; d < NDELIV; d++) {
    VERIF_IN(uint8_t, piv);
    VERIF_IN(uint8_t, kid);
    VERIF_IN(uint8_t, icode);
    VERIF_IN(uint16_t, mid);
    VERIF_IN(uint8_t, verdict);
    VERIF_IN_BUF(tag, 8);
    VERIF_ASSUME(verdict <= 1 && icode >= 1 && icode <= 5);
    coap_pdu_t *req = make_request(mid, piv, kid, icode, tag);
    uint64_t pre_last = rcp.last_seq, pre_win = rcp.sliding_window;
    uint8_t pre_init = rcp.initial_state;
    int replay = 0;
    for (i = 0; i < acc_n; i++) if (acc_piv[i] == piv) replay = 1;
    aead_calls = err_calls = ack_calls = 0;
    aead_verdict = verdict;
    aead_icode = icode;
    coap_pdu_t *out = coap_oscore_decrypt_pdu(&sess, req);
    if (kid != rid) {
      VERIF_ASSERT(out == NULL && aead_calls == 0 && err_calls == 1 && err_code == COAP_RESPONSE_CODE(401), "B2 a request for an unknown kid is refused with 4.01 before any decryption");
    } else {
      if (aead_calls) {
        uint8_t rn[13], ra[40];
        size_t ral = ref_aad(ra, kid, piv), k;
        ref_nonce(rn, kid, piv, civ);
        VERIF_ASSERT(a_keylen == 16 && memcmp(a_key, rkey, 16) == 0, "B2 the key handed to the AEAD is the Recipient Key of the context selected by the kid");
        VERIF_ASSERT(a_noncelen == 13 && memcmp(a_nonce, rn, 13) == 0, "B2 the AEAD nonce is the RFC 8613 5.2 function of (kid, Partial IV, Common IV)");
        VERIF_ASSERT(a_taglen == 8, "B2 tag length of AES-CCM-16-64-128");
        VERIF_ASSERT(a_aadlen == ral, "B2 the AAD has the RFC 8613 5.4 length");
        for (k = 0; k < ral; k++) VERIF_ASSERT(a_aad[k] == ra[k], "B2 the AAD is the Encrypt0 structure over [1, [alg], request_kid, request_piv, empty options] byte for byte");
      }
      if (out) {
        VERIF_ASSERT(aead_calls == 1 && verdict == 1, "B2 a request is accepted only after the AEAD authenticated it");
        VERIF_ASSERT(!replay, "B2 a Partial IV that was accepted before is not accepted again (replay)");
        VERIF_ASSERT(out->code == icode && out->mid == mid && out->actual_token.length == 2 && memcmp(out->actual_token.s, tokb, 2) == 0, "B2 the unprotected request carries the inner code and the outer token / message id");
        {
          coap_opt_iterator_t oi;
          coap_opt_t *o = coap_check_option(out, COAP_OPTION_URI_PATH, &oi);
          VERIF_ASSERT(o && coap_opt_length(o) == 1 && coap_opt_value(o)[0] == 'a', "B2 the inner options are restored");
          VERIF_ASSERT(coap_check_option(out, COAP_OPTION_OSCORE, &oi) == NULL, "B2 the OSCORE option is not passed on");
        }
        /* what the response will be protected with */
        {
          coap_bin_const_t t = {2, tokb};
          oscore_association_t *as = oscore_find_association(&sess, &t);
          uint8_t rn[13], ra[40];
          size_t ral = ref_aad(ra, kid, piv), k;
          ref_nonce(rn, kid, piv, civ);
          VERIF_ASSERT(as != NULL && as->recipient_ctx == &rcp, "B2 the request is remembered (association by token) for protecting the response");
          VERIF_ASSERT(as->aad && as->aad->length == ral, "B2 the remembered AAD has the RFC 8613 5.4 length (also when the association is refreshed)");
          for (k = 0; k < ral; k++) VERIF_ASSERT(as->aad->s[k] == ra[k], "B2 the remembered AAD is this request's AAD (also when the association is refreshed)");
          VERIF_ASSERT(as->nonce && as->nonce->length == 13 && memcmp(as->nonce->s, rn, 13) == 0, "B2 the remembered nonce is this request's nonce");
          VERIF_ASSERT(as->partial_iv && as->partial_iv->length == 1 && as->partial_iv->s[0] == piv, "B2 the remembered Partial IV is this request's");
        }
        acc_piv[acc_n++] = piv;
        coap_delete_pdu(out);
      } else if (aead_calls && !verdict) {
        VERIF_ASSERT(err_calls == 1 && err_code == COAP_RESPONSE_CODE(400), "B2 a request that fails authentication is answered 4.00");
        VERIF_ASSERT(rcp.last_seq == pre_last && rcp.sliding_window == pre_win && rcp.initial_state == pre_init, "B2 a request that fails authentication leaves the replay state exactly as it was");
      }
#if B12 == 0
      if (verdict == 1 && !replay && pre_init == 1) VERIF_ASSERT(out != NULL, "B2 a fresh authentic request is accepted by a fresh context");
#endif
    }
    coap_delete_pdu(req);
  }
#ifdef WITNESS
  if (acc_n == NDELIV) VERIF_REACH("B2 every delivery accepted");
#endif
}
