/* C14 - OSCORE: what libcoap computes around the cryptographic primitives, against RFC 8613 / RFC 8949 (DESIGN 4.14) */
#include "coap3/coap_libcoap_build.h"
#include "common/verif.h"
#include "oscore/oscore.h"
#include "oscore/oscore_cbor.h"
#include "oscore/oscore_cose.h"
#include "oscore/oscore_context.h"
#include <stdlib.h>

static uint8_t *
exact(const uint8_t *src, size_t n) {
  uint8_t *p = malloc(n);           /* n == 0: a zero-size object, any access is out of bounds */
  __CPROVER_assume(p != NULL);
  if (n) memcpy(p, src, n);
  return p;
}

/* ---- L1: CBOR head encoding (RFC 8949 section 3: shortest form) for every 64-bit argument ------------------------------ */
static size_t
ref_cbor_head(uint8_t major, uint64_t v, uint8_t *out) {
  size_t n, i;
  if (v < 24) { out[0] = (uint8_t)((major << 5) | v); return 1; }
  if (v <= 0xff) { out[0] = (uint8_t)((major << 5) | 24); n = 1; }
  else if (v <= 0xffff) { out[0] = (uint8_t)((major << 5) | 25); n = 2; }
  else if (v <= 0xffffffffu) { out[0] = (uint8_t)((major << 5) | 26); n = 4; }
  else { out[0] = (uint8_t)((major << 5) | 27); n = 8; }
  for (i = 0; i < n; i++) out[1 + i] = (uint8_t)(v >> (8 * (n - 1 - i)));
  return 1 + n;
}
#ifndef KIND
#define KIND 0     /* 0 unsigned, 1 negative (argument n encodes -n), 2 tag, 3 array head, 4 map head */
#endif
VERIF_HARNESS(c14_l1_cbor_head) {
  VERIF_IN(uint64_t, v);
#if KIND == 1
  VERIF_ASSUME(v >= 1 && v <= (uint64_t)INT64_MAX);
#endif
  static uint8_t buf[16];
  uint8_t ref[9];
  memset(buf, VERIF_CANARY, sizeof(buf));
  uint8_t *p = buf;
  size_t left = 12, r;
#if KIND == 0
  r = oscore_cbor_put_unsigned(&p, &left, v);
  size_t rn = ref_cbor_head(0, v, ref);
#elif KIND == 1
  r = oscore_cbor_put_negative(&p, &left, (int64_t)v);
  size_t rn = ref_cbor_head(1, v - 1, ref);            /* RFC 8949: -n is major type 1 with argument n-1 */
#elif KIND == 2
  r = oscore_cbor_put_tag(&p, &left, v);
  size_t rn = ref_cbor_head(6, v, ref);
#elif KIND == 3
  r = oscore_cbor_put_array(&p, &left, (size_t)v);
  size_t rn = ref_cbor_head(4, v, ref);
#else
  r = oscore_cbor_put_map(&p, &left, (size_t)v);
  size_t rn = ref_cbor_head(5, v, ref);
#endif
  VERIF_ASSERT(r == rn, "L1 CBOR head has the shortest-form length");
  VERIF_ASSERT(p == buf + rn && left == 12 - rn, "L1 buffer pointer and remaining size advance by the bytes written");
  {
    unsigned i;
    for (i = 0; i < 16; i++) {
      if (i < rn) VERIF_ASSERT(buf[i] == ref[i], "L1 CBOR head bytes equal the RFC 8949 encoding");
      else VERIF_ASSERT(buf[i] == VERIF_CANARY, "L1 nothing is written beyond the item");
    }
  }
#ifdef WITNESS
  if (rn == 9) VERIF_REACH("L1 64-bit argument");
#endif
}

/* ---- L2: OSCORE option value (RFC 8613 section 6.1) ------------------------------------------------------------------------- */
#ifndef N
#define N 4
#endif
typedef struct { int ok; unsigned piv_len, piv_off; int has_ctx; unsigned ctx_len, ctx_off; int has_kid; unsigned kid_len, kid_off; } ref_oopt_t;
static void
ref_oscore_option(const uint8_t *b, size_t n, ref_oopt_t *r) {
  size_t off = 1;
  memset(r, 0, sizeof(*r));
  if (n == 0) { r->ok = 1; return; }                    /* empty value: all fields absent */
  if (n > 255) return;
  if (b[0] & 0xE0) return;                              /* reserved bits must be zero */
  r->piv_len = b[0] & 7;
  if (r->piv_len > 5) return;                           /* 6 and 7 are reserved */
  if (off + r->piv_len > n) return;
  r->piv_off = (unsigned)off; off += r->piv_len;
  if (b[0] & 0x10) {
    if (off >= n) return;
    r->has_ctx = 1; r->ctx_len = b[off]; off++;
    if (off + r->ctx_len > n) return;
    r->ctx_off = (unsigned)off; off += r->ctx_len;
  }
  if (b[0] & 0x08) { r->has_kid = 1; r->kid_off = (unsigned)off; r->kid_len = (unsigned)(n - off); }
  r->ok = 1;
}

VERIF_HARNESS(c14_l2_decode_option) {
#if N > 0
  VERIF_IN_BUF(in, N);
#else
  uint8_t in[1] = {0};
#endif
  uint8_t *v = exact(in, N);
  static cose_encrypt0_t cose;
  memset(&cose, 0, sizeof(cose));
  int r = oscore_decode_option_value(v, N, &cose);
  static ref_oopt_t ref;
  ref_oscore_option(v, N, &ref);
  VERIF_ASSERT((r != 0) == (ref.ok != 0), "L2 OSCORE option value accepted iff well-formed (reserved bits zero, n <= 5, fields inside the value)");
  if (r && ref.ok && N > 0) {
    VERIF_ASSERT(cose.partial_iv.length == ref.piv_len, "L2 Partial IV length");
    {
      unsigned i;      /* the Partial IV is copied into the COSE object */
      for (i = 0; i < 5; i++) if (i < ref.piv_len) VERIF_ASSERT(cose.partial_iv.s[i] == v[ref.piv_off + i], "L2 Partial IV bytes");
    }
    if (ref.has_ctx) VERIF_ASSERT(cose.kid_context.length == ref.ctx_len && cose.kid_context.s == v + ref.ctx_off, "L2 kid context field");
    if (ref.has_kid) VERIF_ASSERT(cose.key_id.length == ref.kid_len && cose.key_id.s == v + ref.kid_off, "L2 kid field is the rest of the value");
  }
  free(v);
#ifdef WITNESS
#if N >= 4
  if (r && ref.has_ctx && ref.has_kid && ref.piv_len) VERIF_REACH("L2 all fields present");
#else
  VERIF_REACH("L2 end");
#endif
#endif
}

#ifndef PIVL
#define PIVL 2
#endif
#ifndef KIDL
#define KIDL 1      /* -1: no kid */
#endif
#ifndef CTXL
#define CTXL 0      /* 0: no kid context */
#endif
VERIF_HARNESS(c14_l2_encode_option) {
  VERIF_IN_BUF(piv, PIVL + 1);
  VERIF_IN_BUF(kid, (KIDL > 0 ? KIDL : 0) + 1);
  VERIF_IN_BUF(kc, CTXL + 1);
  static cose_encrypt0_t cose, back;
  static uint8_t out[32];
  memset(&cose, 0, sizeof(cose));
  memset(out, VERIF_CANARY, sizeof(out));
  cose.partial_iv.s = piv; cose.partial_iv.length = PIVL;
#if KIDL >= 0
  cose.key_id.s = kid; cose.key_id.length = KIDL;
#endif
#if CTXL > 0
  cose.kid_context.s = kc; cose.kid_context.length = CTXL;
#endif
  size_t n = oscore_encode_option_value(out, 24, &cose, 0, 0);
  /* reference compression (RFC 8613 6.1) */
  uint8_t ref[32];
  size_t o = 1, i;
  ref[0] = (uint8_t)(PIVL | (KIDL >= 0 ? 0x08 : 0) | (CTXL > 0 ? 0x10 : 0));
  for (i = 0; i < PIVL; i++) ref[o++] = piv[i];
#if CTXL > 0
  ref[o++] = CTXL;
  for (i = 0; i < CTXL; i++) ref[o++] = kc[i];
#endif
#if KIDL > 0
  for (i = 0; i < KIDL; i++) ref[o++] = kid[i];
#endif
  if (o == 1 && ref[0] == 0) o = 0;        /* all fields absent: the empty value */
  VERIF_ASSERT(n == o, "L2 encoded OSCORE option has the RFC 8613 6.1 length");
  for (i = 0; i < 32; i++) {
    if (i < o) VERIF_ASSERT(out[i] == ref[i], "L2 encoded OSCORE option bytes equal the RFC 8613 6.1 compression");
    else if (!(o == 0 && i == 0)) VERIF_ASSERT(out[i] == VERIF_CANARY, "L2 nothing written beyond the option value");
  }
  /* and it decodes back to the same fields */
  memset(&back, 0, sizeof(back));
  uint8_t *ex = exact(out, n);
  VERIF_ASSERT(oscore_decode_option_value(ex, n, &back) == 1, "L2 decode(encode(x)) succeeds");
  if (n) {
    VERIF_ASSERT(back.partial_iv.length == PIVL && (PIVL == 0 || memcmp(back.partial_iv.s, piv, PIVL) == 0), "L2 Partial IV round trip");
#if KIDL >= 0
    VERIF_ASSERT(back.key_id.length == (KIDL > 0 ? KIDL : 0) && (KIDL <= 0 || memcmp(back.key_id.s, kid, KIDL) == 0), "L2 kid round trip");
#endif
#if CTXL > 0
    VERIF_ASSERT(back.kid_context.length == CTXL && memcmp(back.kid_context.s, kc, CTXL) == 0, "L2 kid context round trip");
#endif
  }
  VERIF_REACH("L2 end");
}

/* ---- L3: AEAD nonce (RFC 8613 section 5.2) ---------------------------------------------------------------------------------- */
#ifndef IDL
#define IDL 1
#endif
VERIF_HARNESS(c14_l3_nonce) {
  VERIF_IN_BUF(id, IDL + 1);
  VERIF_IN_BUF(piv, PIVL + 1);
  VERIF_IN_BUF(civ, 13);
  static cose_encrypt0_t cose;
  static oscore_ctx_t ctx;
  static coap_bin_const_t common_iv;
  static uint8_t nonce[16];
  memset(&cose, 0, sizeof(cose));
  memset(&ctx, 0, sizeof(ctx));
  memset(nonce, VERIF_CANARY, sizeof(nonce));
  common_iv.s = civ; common_iv.length = 13;
  ctx.common_iv = &common_iv;
  cose.key_id.s = id; cose.key_id.length = IDL;
  cose.partial_iv.s = piv; cose.partial_iv.length = PIVL;
  oscore_generate_nonce(&cose, &ctx, nonce, 13);
  /* RFC 8613 5.2: 1) left-pad PIV to 5 bytes; 2) left-pad ID_PIV to nonce_len-6 = 7 bytes; 3) S = len(ID_PIV) in one
   * byte; nonce = (S | padded ID | padded PIV) XOR common IV */
  uint8_t ref[13];
  unsigned i;
  memset(ref, 0, 13);
  ref[0] = IDL;
  for (i = 0; i < IDL; i++) ref[1 + 7 - IDL + i] = id[i];
  for (i = 0; i < PIVL; i++) ref[8 + 5 - PIVL + i] = piv[i];
  for (i = 0; i < 13; i++) ref[i] ^= civ[i];
  for (i = 0; i < 16; i++) {
    if (i < 13) VERIF_ASSERT(nonce[i] == ref[i], "L3 nonce equals the RFC 8613 5.2 construction");
    else VERIF_ASSERT(nonce[i] == VERIF_CANARY, "L3 nothing written beyond the 13-byte nonce");
  }
  VERIF_REACH("L3 end");
}
