/* C14-L4: security-context selection. oscore_find_context() (oscore_context.c) picks the recipient context a protected message is
 * decrypted with from (kid, kid context). The kid context is not covered by the AEAD, so this comparison is its only protection:
 * the context returned must be the FIRST one in the chain whose Recipient ID equals the kid (length and bytes) and whose ID Context
 * equals the kid context (length and bytes; no ID Context configured <=> empty or absent kid context); none => NULL.
 * Lengths are concrete per job (memcmp sizes), all identifier bytes symbolic. Two contexts with one recipient each. */
#include "coap3/coap_libcoap_build.h"
#include "oscore/oscore_context.h"
#include "common/verif.h"

#ifndef KIDLEN
#define KIDLEN 1
#endif
#ifndef IDCLEN          /* length of the configured ID Context of both contexts; -1 = none configured */
#define IDCLEN 3
#endif
#ifndef RXCLEN          /* length of the received kid context; -1 = option carries none */
#define RXCLEN 3
#endif
#define LEN0(x) ((x) > 0 ? (x) : 1)

static int
ref_match(const uint8_t *rid, const uint8_t *kid, const uint8_t *idc, const uint8_t *rxc) {
  int i;
  for (i = 0; i < KIDLEN; i++) if (rid[i] != kid[i]) return 0;
#if RXCLEN >= 0
#if IDCLEN >= 0
  if (IDCLEN != RXCLEN) return 0;
  for (i = 0; i < RXCLEN; i++) if (idc[i] != rxc[i]) return 0;
#else
  if (RXCLEN > 0) return 0;
#endif
#endif
  (void)idc; (void)rxc;
  return 1;
}

VERIF_HARNESS(c14_l4_find_context) {
  VERIF_IN_BUF(rid1, LEN0(KIDLEN));
  VERIF_IN_BUF(rid2, LEN0(KIDLEN));
  VERIF_IN_BUF(kid, LEN0(KIDLEN));
  VERIF_IN_BUF(idc1, LEN0(IDCLEN));
  VERIF_IN_BUF(idc2, LEN0(IDCLEN));
  VERIF_IN_BUF(rxc, LEN0(RXCLEN));
  static coap_context_t ctx;
  static oscore_ctx_t o1, o2;
  static oscore_recipient_ctx_t r1, r2;
  coap_bin_const_t b_rid1 = {KIDLEN, rid1}, b_rid2 = {KIDLEN, rid2}, b_kid = {KIDLEN, kid};
#if IDCLEN >= 0
  coap_bin_const_t b_idc1 = {IDCLEN, idc1}, b_idc2 = {IDCLEN, idc2};
  o1.id_context = &b_idc1;
  o2.id_context = &b_idc2;
#endif
#if RXCLEN >= 0
  coap_bin_const_t b_rxc = {RXCLEN, rxc};
  const coap_bin_const_t *p_rxc = &b_rxc;
#else
  const coap_bin_const_t *p_rxc = NULL;
#endif
  oscore_recipient_ctx_t *got_r = (oscore_recipient_ctx_t *)&ctx;     /* must be overwritten */
  oscore_ctx_t *got;
  r1.recipient_id = &b_rid1; r1.osc_ctx = &o1;
  r2.recipient_id = &b_rid2; r2.osc_ctx = &o2;
  o1.recipient_chain = &r1; o1.next = &o2;
  o2.recipient_chain = &r2; o2.next = NULL;
  ctx.p_osc_ctx = &o1;
  got = oscore_find_context(&ctx, b_kid, p_rxc, NULL, &got_r);
  int m1 = ref_match(rid1, kid, idc1, rxc), m2 = ref_match(rid2, kid, idc2, rxc);
  if (m1) VERIF_ASSERT(got == &o1 && got_r == &r1, "L4 the first context whose Recipient ID and ID Context equal kid and kid context is selected");
  else if (m2) VERIF_ASSERT(got == &o2 && got_r == &r2, "L4 a context is selected only if its whole ID Context equals the received kid context (second context)");
  else VERIF_ASSERT(got == NULL && got_r == NULL, "L4 no context is selected when kid or kid context differ in any byte");
#ifdef WITNESS
  if (!m1 && m2) VERIF_REACH("L4 second context selected");
#endif
}
