/* C09-B3: client side of a Block1 upload performed by libcoap on the application's behalf.
 * Real coap_add_data_large_request_lkd() (block size selection against the PDU maximum size, first block, skeletal PDU),
 * real coap_send_lkd(), then the server's piggybacked answers (2.31 Continue per block, final 2.04) are delivered through the
 * real coap_dispatch() -> handle_response() -> coap_handle_response_send_block(), which builds and sends every further block.
 * Body bytes are symbolic; body length LEN, PDU maximum size MAXSIZE and the block size the peer asks for are concrete per job.
 * Every request datagram is inspected while it sits in the retransmission queue. */
#include "common/netenv.h"
#include "common/unreach.h"
#include "coap3/coap_block_internal.h"

unsigned int coap_dtls_get_overhead(coap_session_t *session) { (void)session; return 29; }
int coap_netif_available(coap_session_t *session) { (void)session; return 1; }

#ifndef LEN
#define LEN 40
#endif
#ifndef MAXSIZE
#define MAXSIZE 100
#endif
#ifndef PEERSZX
#define PEERSZX -1       /* >= 0: the server's first 2.31 asks for this (smaller) block size */
#endif
#define MAXIT (LEN / 16 + 2)

static int rel_calls, app_calls, app_tok_ok, app_sent_tok_ok;
static uint8_t app_code;
static uint8_t tok[2] = {0xA7, 0x3C};

static void
b3_release(coap_session_t *session, void *app_ptr) {
  (void)session; (void)app_ptr;
  rel_calls++;
}
static coap_response_t
b3_response_handler(coap_session_t *session, const coap_pdu_t *sent, const coap_pdu_t *received, const coap_mid_t mid) {
  (void)session; (void)mid;
  app_calls++;
  app_code = received->code;
  app_tok_ok = received->actual_token.length == 2 && received->actual_token.s[0] == tok[0] && received->actual_token.s[1] == tok[1];
  app_sent_tok_ok = sent == NULL || (sent->actual_token.length == 2 && sent->actual_token.s[0] == tok[0] && sent->actual_token.s[1] == tok[1]);
  return COAP_RESPONSE_OK;
}

VERIF_HARNESS(c09_b3_send) {
  VERIF_IN_BUF(body, LEN);
  static const uint8_t upath[1] = {'r'};
  coap_pdu_t *pdu;
  size_t offset = 0;
  int it, done = 0, szx_now = -1;
  ne_init();
  ne_ctx.response_handler = b3_response_handler;
  ne_sess.block_mode = COAP_BLOCK_USE_LIBCOAP | COAP_BLOCK_SINGLE_BODY;
  ne_sess.last_con_mid = COAP_INVALID_MID;
  ne_sess.last_ack_mid = COAP_INVALID_MID;
  env_now = 1000;
  ne_ctx.sendqueue_basetime = 1000;
  rel_calls = app_calls = 0;

  pdu = coap_pdu_init(COAP_MESSAGE_CON, COAP_REQUEST_CODE_PUT, 0x1234, MAXSIZE);
  VERIF_ASSUME(pdu != NULL);
  coap_add_token(pdu, 2, tok);
  coap_add_option(pdu, COAP_OPTION_URI_PATH, 1, upath);
  if (!coap_add_data_large_request_lkd(&ne_sess, pdu, LEN, body, b3_release, NULL)) {
    /* refusal is explicit (return 0) and must still release the application's data exactly once */
    VERIF_ASSERT(rel_calls == 1, "B3 a refused upload releases the application's body exactly once");
    coap_delete_pdu(pdu);
    VERIF_REACH("B3 refused");
    return;
  }
  VERIF_ASSERT(coap_send_lkd(&ne_sess, pdu) != COAP_INVALID_MID, "B3 the first block is sent");

  for (it = 0; it < MAXIT && !done; it++) {
    coap_queue_t *q = ne_ctx.sendqueue;
    coap_pdu_t *p, *rsp;
    coap_block_b_t blk;
    size_t dl = 0, size, want, k, tkl;
    const uint8_t *dp = NULL;
    uint8_t v[4], rtok[8];
    uint16_t rmid;
    int have, szx_rsp;
    VERIF_ASSERT(q != NULL && q->next == NULL && ne_tx_count == it + 1, "B3 exactly one request datagram per acknowledged block is in flight");
    p = q->pdu;
    VERIF_ASSERT(p->used_size <= MAXSIZE, "B3 every block message fits the maximum message size");
    have = coap_get_block_b(&ne_sess, p, COAP_OPTION_BLOCK1, &blk);
    (void)coap_get_data(p, &dl, &dp);
    if (!have) {
      VERIF_ASSERT(it == 0 && dl == LEN, "B3 a request without Block1 carries the whole body");
      blk.num = 0; blk.m = 0; blk.szx = 6; blk.aszx = 6;
    }
    size = (size_t)16 << blk.szx;
    VERIF_ASSERT((size_t)blk.num * size == offset, "B3 the blocks tile the body: each block starts where the previous one ended");
    want = LEN - offset < size ? LEN - offset : size;
    VERIF_ASSERT(dl == want, "B3 a block carries exactly one block size of data (the last one the remainder)");
    for (k = 0; k < (size_t)LEN; k++)
      if (k >= offset && k < offset + dl) VERIF_ASSERT(dp[k - offset] == body[k], "B3 block payload is the sender's body at the block's offset");
    VERIF_ASSERT(!have || blk.m == (offset + dl < (size_t)LEN), "B3 the More flag is set exactly while data remains");
    if (szx_now >= 0) VERIF_ASSERT((int)blk.szx <= szx_now, "B3 the block size never grows during a transfer");
    szx_now = blk.szx;
    offset += dl;
    /* the server's piggybacked answer to this request */
    tkl = p->actual_token.length;
    VERIF_ASSERT(tkl <= 8, "B3 token fits");
    for (k = 0; k < 8; k++) rtok[k] = k < tkl ? p->actual_token.s[k] : 0;
    rmid = (uint16_t)p->mid;
    done = offset >= (size_t)LEN;
    szx_rsp = blk.szx;
#if PEERSZX >= 0
    if (it == 0 && PEERSZX < (int)blk.szx) szx_rsp = PEERSZX;
#endif
    rsp = coap_pdu_init(COAP_MESSAGE_ACK, done ? COAP_RESPONSE_CODE(204) : COAP_RESPONSE_CODE(231), rmid, 64);
    VERIF_ASSUME(rsp != NULL);
    coap_add_token(rsp, tkl, rtok);
    if (have)
      coap_add_option(rsp, COAP_OPTION_BLOCK1, coap_encode_var_safe(v, sizeof(v), ((unsigned)blk.num << 4) | ((done ? 0u : 1u) << 3) | (unsigned)szx_rsp), v);
    coap_pdu_encode_header(rsp, COAP_PROTO_UDP);
    env_now += 10;
    coap_dispatch(&ne_ctx, &ne_sess, rsp);
    coap_delete_pdu(rsp);
    if (!done) VERIF_ASSERT(app_calls == 0, "B3 2.31 Continue is consumed by libcoap, not handed to the application");
  }
  VERIF_ASSERT(done, "B3 the transfer completes within body-length/16 + 2 requests");
  VERIF_ASSERT(app_calls == 1 && app_code == COAP_RESPONSE_CODE(204), "B3 exactly one final response reaches the application");
  VERIF_ASSERT(app_tok_ok, "B3 the final response carries the application's own token, never one libcoap substituted");
  VERIF_ASSERT(app_sent_tok_ok, "B3 the request shown to the handler carries the application's own token");
  VERIF_ASSERT(rel_calls == 1, "B3 the sender's release callback runs exactly once");
  VERIF_ASSERT(ne_sess.lg_xmit == NULL, "B3 the transfer state is released at the end");
  VERIF_ASSERT(ne_ctx.sendqueue == NULL, "B3 nothing is left to retransmit");
  VERIF_REACH("B3 end");
}
