/* C09-B2: client side of a Block2 download handled by libcoap (COAP_BLOCK_USE_LIBCOAP, single-body or per-block delivery).
 * The application's GET goes out through the real coap_send_lkd(); then the response datagrams of ONE body of NBLK blocks of 16
 * bytes (last block LASTLEN bytes) are delivered through the real coap_dispatch() -> handle_response() ->
 * coap_handle_response_get_block() in a concrete order (SEQ: digits = block numbers; each response answers the most recent request
 * libcoap transmitted, i.e. it carries THAT request's message id and token - which after block 0 is a token libcoap substituted).
 * A repeated digit is a duplicated datagram. Body bytes and the application token are symbolic.
 * What the application's response handler sees is compared with the sender's body. */
#include "common/netenv.h"
#include "common/unreach.h"
#include "coap3/coap_block_internal.h"

unsigned int coap_dtls_get_overhead(coap_session_t *session) { (void)session; return 29; }

#ifndef NBLK
#define NBLK 2
#endif
#ifndef LASTLEN
#define LASTLEN 5
#endif
#ifndef SEQLEN
#define SEQLEN 2
#define SEQ {0, 1}
#endif
#ifndef SIZE2
#define SIZE2 1          /* 1: every block carries Size2 = body length; 0: no Size2 option */
#endif
#ifndef SINGLE
#define SINGLE 1         /* 1: COAP_BLOCK_SINGLE_BODY; 0: each block is handed to the application */
#endif
#ifndef RTYPE
#define RTYPE 2   /* 2 = COAP_MESSAGE_ACK: piggybacked responses; 1 = COAP_MESSAGE_NON: separate non-confirmable responses */
#endif
#ifndef ERR_AT
#define ERR_AT -1        /* >= 0: the delivery with this index is a 4.04 error response (no Block2) to the request it answers */
#endif
#define BODYLEN ((NBLK - 1) * 16 + LASTLEN)

static uint8_t *g_body, *g_tok;
static int app_calls, app_ok, app_tok_ok, app_sent_tok_ok;
static size_t app_offset, app_total, app_len;

static coap_response_t
b2_response_handler(coap_session_t *session, const coap_pdu_t *sent, const coap_pdu_t *received, const coap_mid_t mid) {
  size_t len = 0, offset = 0, total = 0, k;
  const uint8_t *data = NULL;
  int ok;
  (void)session; (void)mid;
  app_calls++;
  ok = coap_get_data_large(received, &len, &data, &offset, &total);
  app_offset = offset;
  app_total = total;
  app_len = len;
  if (ok && data && offset <= BODYLEN && len <= BODYLEN - offset) {
    for (k = 0; k < BODYLEN; k++)
      if (k >= offset && k < offset + len && data[k - offset] != g_body[k]) ok = 0;
  } else {
    ok = 0;
  }
  app_ok = ok;
  app_tok_ok = received->actual_token.length == 2 && received->actual_token.s[0] == g_tok[0] && received->actual_token.s[1] == g_tok[1];
  app_sent_tok_ok = sent == NULL || (sent->actual_token.length == 2 && sent->actual_token.s[0] == g_tok[0] && sent->actual_token.s[1] == g_tok[1]);
  return COAP_RESPONSE_OK;
}

/* what handle_response() does when coap_handle_response_get_block() returns 0 */
static void
deliver(coap_pdu_t *sent, coap_pdu_t *rcvd) {
  (void)b2_response_handler(&ne_sess, sent, rcvd, rcvd->mid);
}

VERIF_HARNESS(c09_b2_get) {
  static const int seq[SEQLEN] = SEQ;
  VERIF_IN_BUF(body, BODYLEN);
  /* the application's token is concrete (a symbolic one makes the transfer-state lookup by token a symbolic branch at every
   * delivery); what the handler must see is exactly these two bytes, and libcoap's substituted tokens are 6 bytes long */
  static uint8_t tok[2] = {0xA7, 0x3C};
  int i, seen[NBLK], nseen = 0, expect_calls = 0;
  static size_t rs_tkl[NBLK];
  static uint16_t rs_mid[NBLK];
  static uint8_t rs_tok[NBLK][8];
  static const uint8_t upath[1] = {'r'};
  coap_pdu_t *req;
  ne_init();
  g_body = body;
  g_tok = tok;
  ne_ctx.response_handler = b2_response_handler;
  ne_sess.block_mode = COAP_BLOCK_USE_LIBCOAP | (SINGLE ? COAP_BLOCK_SINGLE_BODY : 0);
  env_now = 1000;
  ne_ctx.sendqueue_basetime = 1000;
  for (i = 0; i < NBLK; i++) seen[i] = 0;
  app_calls = 0;

  req = coap_pdu_init(RTYPE == 2 ? COAP_MESSAGE_CON : COAP_MESSAGE_NON, COAP_REQUEST_CODE_GET, 0x1234, 256);
  VERIF_ASSUME(req != NULL);
  coap_add_token(req, 2, tok);
  coap_add_option(req, COAP_OPTION_URI_PATH, 1, upath);
#if RTYPE != 2
  {
    /* coap_send_lkd() sets the client transfer state up front for a Non-confirmable request */
    coap_lg_crcv_t *lg = coap_block_new_lg_crcv(&ne_sess, req, NULL);
    VERIF_ASSUME(lg != NULL);
    LL_PREPEND(ne_sess.lg_crcv, lg);
  }
#endif
  VERIF_ASSERT(coap_send_internal(&ne_sess, req) != COAP_INVALID_MID, "B2 the application's request is transmitted");
  VERIF_ASSERT(ne_tx_count == 1 && (ne_tx_first[0][0] & 0x0f) == 2 && ne_tx_first[0][4] == tok[0] && ne_tx_first[0][5] == tok[1],
               "B2 the first request goes out with the application's token");

  for (i = 0; i < SEQLEN; i++) {
    int num = seq[i], more = num < NBLK - 1;
    size_t len = more ? 16 : LASTLEN;
    int k = ne_tx_count - 1, calls_before = app_calls, tx_before = ne_tx_count, r;
    uint8_t v[4];
    coap_queue_t *sent = NULL;
    /* a NEW block answers the newest request on the wire (that request's mid and token - after block 0 a token libcoap chose);
     * a repeated block number is a network duplicate: the identical datagram again */
    size_t tkl;
    uint16_t rmid;
    coap_pdu_t *rsp;
    if (!seen[num]) {
      size_t b;
      /* token lengths are concrete per job: the application's 2-byte token on the first request, then the 6-byte transfer token
       * (STATE_TOKEN_FULL(1, retry)); assumed, so that another token scheme makes the job vacuous (inconclusive), not wrong */
      rs_tkl[num] = nseen == 0 ? 2 : 6;
      VERIF_ASSUME((size_t)(ne_tx_first[k][0] & 0x0f) == rs_tkl[num]);
      rs_mid[num] = (uint16_t)((ne_tx_first[k][2] << 8) | ne_tx_first[k][3]);
      for (b = 0; b < 8; b++) rs_tok[num][b] = ne_tx_first[k][4 + b];
    }
    tkl = rs_tkl[num];
    rmid = rs_mid[num];
    rsp = coap_pdu_init(RTYPE, COAP_RESPONSE_CODE(205), RTYPE == 2 ? rmid : (uint16_t)(0x7000 + num), 256);
    VERIF_ASSUME(rsp != NULL);
    coap_add_token(rsp, tkl, rs_tok[num]);
    if (i == ERR_AT) {
      /* the server abandons the transfer: an error response to the (follow-up) request, carrying that request's token */
      int state_before = ne_sess.lg_crcv != NULL;
      rsp->code = COAP_RESPONSE_CODE(404);
#if RTYPE == 2
      coap_remove_from_queue(&ne_ctx.sendqueue, &ne_sess, rmid, &sent);
      if (sent && ne_sess.con_active) ne_sess.con_active--;
#endif
      r = coap_handle_response_get_block(&ne_ctx, &ne_sess, sent ? sent->pdu : NULL, rsp, COAP_RECURSE_OK);
      if (r == 0) deliver(sent ? sent->pdu : NULL, rsp);
      VERIF_ASSERT(app_calls == calls_before + 1, "B2 an error response that ends the transfer is handed to the application exactly once");
      VERIF_ASSERT(app_tok_ok, "B2 the error response handed to the application carries the application's own token, never one libcoap substituted");
      VERIF_ASSERT(app_sent_tok_ok, "B2 the request shown to the handler with the error response carries the application's own token");
      VERIF_ASSERT(!state_before || ne_sess.lg_crcv == NULL, "B2 the transfer state is released when the transfer is abandoned");
      if (sent) coap_delete_node_lkd(sent);
      coap_delete_pdu(rsp);
      seen[num] = 1;
      break;
    }
    coap_add_option(rsp, COAP_OPTION_BLOCK2, coap_encode_var_safe(v, sizeof(v), ((unsigned)num << 4) | ((unsigned)more << 3) | 0), v);
#if SIZE2
    coap_add_option(rsp, COAP_OPTION_SIZE2, coap_encode_var_safe(v, sizeof(v), BODYLEN), v);
#endif
    coap_add_data(rsp, len, body + num * 16);
    env_now += 10;
    /* as coap_dispatch() does for an ACK (a NON response finds no queued request): take the answered request off the queue */
#if RTYPE == 2
    coap_remove_from_queue(&ne_ctx.sendqueue, &ne_sess, rmid, &sent);
    if (sent && ne_sess.con_active) ne_sess.con_active--;
#endif
    r = coap_handle_response_get_block(&ne_ctx, &ne_sess, sent ? sent->pdu : NULL, rsp, COAP_RECURSE_OK);
    if (r == 0) deliver(sent ? sent->pdu : NULL, rsp);
    if (sent) coap_delete_node_lkd(sent);
    coap_delete_pdu(rsp);

    int isnew = !seen[num];
    if (!seen[num]) {
      seen[num] = 1;
      nseen++;
#if SINGLE
      if (nseen == NBLK) expect_calls++;
      VERIF_ASSERT(app_calls == expect_calls, "B2 single-body mode: the handler runs only once every block is in, then exactly once");
#else
      expect_calls++;
      VERIF_ASSERT(app_calls == expect_calls, "B2 per-block mode: every new block is handed to the handler exactly once");
#endif
    } else {
      VERIF_ASSERT(app_calls == calls_before, "B2 a duplicated block is not delivered to the application again");
    }
    if (app_calls > calls_before) {
      VERIF_ASSERT(app_tok_ok, "B2 the response handed to the application carries the application's own token, never one libcoap substituted");
      VERIF_ASSERT(app_sent_tok_ok, "B2 the request shown to the handler carries the application's own token");
      VERIF_ASSERT(app_ok, "B2 the bytes handed to the application are exactly the sender's body at the reported offset");
#if SINGLE
      VERIF_ASSERT(app_offset == 0 && app_len == BODYLEN && app_total == BODYLEN, "B2 single-body mode delivers the whole body: offset 0, length = total = body length");
#else
      VERIF_ASSERT(app_offset == (size_t)num * 16 && app_len == len, "B2 per-block mode: offset and length of the delivered block tile the body");
#if SIZE2
      VERIF_ASSERT(app_total == BODYLEN, "B2 per-block mode: reported total is the body length when the server announced it");
#endif
#endif
    }
    if (more && isnew) {
      int j = ne_tx_count - 1;
      VERIF_ASSERT(ne_tx_count == tx_before + 1, "B2 a new block with M=1 makes the client request the next block, once");
      VERIF_ASSERT(ne_tx_first[j][1] == COAP_REQUEST_CODE_GET, "B2 the follow-up message is the same GET request");
    }
  }
#if COMPLETE
  VERIF_ASSERT(nseen == NBLK, "B2 scenario delivers every block");
#else
#if SINGLE && ERR_AT < 0
  VERIF_ASSERT(app_calls == 0, "B2 an incomplete body is never handed to the application in single-body mode");
#endif
#endif
  VERIF_REACH("B2 end");
}
