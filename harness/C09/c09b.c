/* C09-B1: server side of a Block1 upload reassembled by libcoap (COAP_BLOCK_SINGLE_BODY), real coap_handle_request_put_block()
 * driven directly with the request datagrams of ONE transfer of NBLK blocks of 16 bytes (last block LASTLEN bytes) delivered in a
 * concrete order (SEQ: digits = block numbers, may repeat = duplicated datagram, any order = reordering), payload bytes symbolic.
 * What the application would see (return 0 + assembled body) is compared with the sender's body. */
#include "common/netenv.h"
#include "common/unreach.h"
#include "coap3/coap_block_internal.h"

unsigned int coap_dtls_get_overhead(coap_session_t *session) { (void)session; return 29; }

#ifndef NBLK
#define NBLK 2
#endif
#ifndef LASTLEN
#define LASTLEN 5
#endif
#ifndef SEQLEN
#define SEQLEN 2
#define SEQ {0, 1}
#endif
#ifndef SIZE1
#define SIZE1 1          /* 1: every block carries Size1 = body length; 0: no Size1 option */
#endif
#define BODYLEN ((NBLK - 1) * 16 + LASTLEN)

static int app_calls;
static int app_body_ok;

VERIF_HARNESS(c09_b1_put) {
  static const int seq[SEQLEN] = SEQ;
  static coap_resource_t res;
  static uint8_t upath[1] = {'r'};
  static coap_string_t uri_path = {1, upath};
  VERIF_IN_BUF(body, BODYLEN);
  VERIF_IN_BUF(tok, 2);
  int i, seen[NBLK], nseen = 0;
  ne_init();
  ne_sess.type = COAP_SESSION_TYPE_SERVER;
  ne_sess.block_mode = COAP_BLOCK_USE_LIBCOAP | COAP_BLOCK_SINGLE_BODY;
  memset(&res, 0, sizeof(res));
  res.context = &ne_ctx;
  for (i = 0; i < NBLK; i++) seen[i] = 0;
  app_calls = 0;
  for (i = 0; i < SEQLEN; i++) {
    int num = seq[i], more = num < NBLK - 1;
    size_t len = more ? 16 : LASTLEN;
    uint8_t v[4];
    coap_pdu_t *req = coap_pdu_init(COAP_MESSAGE_CON, COAP_REQUEST_CODE_PUT, (uint16_t)(0x100 + i), 256);
    coap_pdu_t *rsp = coap_pdu_init(COAP_MESSAGE_ACK, 0, (uint16_t)(0x100 + i), 256);
    int added_block = 0;
    coap_lg_srcv_t *free_lg = NULL;
    VERIF_ASSUME(req != NULL && rsp != NULL);
    coap_add_token(req, 2, tok);
    coap_add_token(rsp, 2, tok);
    coap_add_option(req, COAP_OPTION_BLOCK1, coap_encode_var_safe(v, sizeof(v), ((unsigned)num << 4) | ((unsigned)more << 3) | 0), v);
#if SIZE1
    coap_add_option(req, COAP_OPTION_SIZE1, coap_encode_var_safe(v, sizeof(v), BODYLEN), v);
#endif
    coap_add_data(req, len, body + num * 16);
    int r = coap_handle_request_put_block(&ne_ctx, &ne_sess, req, rsp, &res, &uri_path, NULL, &added_block, &free_lg);
    if (!seen[num]) { seen[num] = 1; nseen++; }
    if (r == 0) {
      /* the application handler would now run with req */
      size_t k;
      int ok = req->body_data != NULL && req->body_length == BODYLEN && req->body_offset == 0 && req->body_total == BODYLEN;
      app_calls++;
      for (k = 0; k < BODYLEN; k++)
        if (ok && req->body_data[k] != body[k]) ok = 0;
      app_body_ok = ok;
      VERIF_ASSERT(nseen == NBLK, "B1 the application is only called once every block of the body has arrived");
      VERIF_ASSERT(ok, "B1 the body handed to the application is exactly the sender's body (length, offset 0, every byte)");
      VERIF_ASSERT(req->actual_token.length == 2 && req->actual_token.s[0] == tok[0] && req->actual_token.s[1] == tok[1],
                   "B1 the request handed to the application carries the client's token");
      /* what handle_request() does after the handler */
      if (free_lg) {
        LL_DELETE(ne_sess.lg_srcv, free_lg);
        coap_block_delete_lg_srcv(&ne_sess, free_lg);
      }
    } else {
      VERIF_ASSERT(free_lg == NULL, "B1 no transfer state is handed back for release when the handler is skipped");
      if (nseen < NBLK)
        VERIF_ASSERT(rsp->code == COAP_RESPONSE_CODE(231) || rsp->code == 0, "B1 an interim block is answered 2.31 Continue (or just acknowledged)");
    }
    coap_delete_pdu(req);
    coap_delete_pdu(rsp);
  }
#if COMPLETE
  VERIF_ASSERT(app_calls == 1, "B1 a transfer whose every block arrived (in any order, with duplicates) is delivered to the application exactly once");
  VERIF_ASSERT(ne_sess.lg_srcv == NULL, "B1 the transfer state is released after delivery");
#else
  VERIF_ASSERT(app_calls == 0, "B1 an incomplete body is never handed to the application");
#endif
  VERIF_REACH("B1 end");
}
