/* C09 - block-wise transfer: the kernels the body-integrity argument rests on (DESIGN 4.9; the end-to-end statement over
 * loss patterns is NOT claimed) */
#include "coap3/coap_libcoap_build.h"
#include "common/verif.h"
#include <stdlib.h>

int __CPROVER_file_local_coap_block_c_update_received_blocks(coap_rblock_t *rec_blocks, uint32_t block_num);
int __CPROVER_file_local_coap_block_c_check_all_blocks_in(coap_rblock_t *rec_blocks, size_t total_blocks);

/* ---- S1: received-block bookkeeping from an arbitrary well-formed range table ------------------------------------------ */
static int
in_table(const coap_rblock_t *t, uint32_t b) {
  uint32_t i;
  for (i = 0; i < COAP_RBLOCK_CNT; i++)
    if (i < t->used && b >= t->range[i].begin && b <= t->range[i].end) return 1;
  return 0;
}
/* representation invariant: ranges sorted, disjoint, non-adjacent, inside the array */
static int
well_formed(const coap_rblock_t *t) {
  uint32_t i;
  if (t->used > COAP_RBLOCK_CNT) return 0;
  for (i = 0; i < COAP_RBLOCK_CNT; i++) {
    if (i < t->used) {
      if (t->range[i].begin > t->range[i].end) return 0;
      if (t->range[i].end > 0xFFFFF) return 0;
      if (i + 1 < t->used && !(t->range[i].end + 1 < t->range[i + 1].begin)) return 0;
    }
  }
  return 1;
}

#ifndef USED
#define USED 2
#endif
VERIF_HARNESS(c09_s1_received_blocks) {
  static coap_rblock_t t, pre;
  uint32_t used = USED;           /* concrete per job: the code moves 'used - i' entries with memmove */
  VERIF_IN(uint32_t, b0); VERIF_IN(uint32_t, e0); VERIF_IN(uint32_t, b1); VERIF_IN(uint32_t, e1); VERIF_IN(uint32_t, b2); VERIF_IN(uint32_t, e2);
  VERIF_IN(uint32_t, num);
  VERIF_IN(uint32_t, w);          /* universally quantified witness block */
  VERIF_IN(uint32_t, total);
  memset(&t, 0, sizeof(t));
  t.used = used;
  t.range[0].begin = b0; t.range[0].end = e0;
  t.range[1].begin = b1; t.range[1].end = e1;
  t.range[2].begin = b2; t.range[2].end = e2;
  /* histories only fill COAP_RBLOCK_CNT - 1 = 3 ranges (the code refuses the 4th) */
  VERIF_ASSUME(used <= COAP_RBLOCK_CNT - 1 && well_formed(&t));
  VERIF_ASSUME(num <= 0xFFFFF && w <= 0xFFFFF && total >= 1 && total <= 0x100000);
  pre = t;
  int w_pre = in_table(&pre, w);
  int r = __CPROVER_file_local_coap_block_c_update_received_blocks(&t, num);
  VERIF_ASSERT(t.used <= COAP_RBLOCK_CNT - 1, "S1 the range table never grows beyond the entries the array can hold");
  VERIF_ASSERT(well_formed(&t), "S1 the range table stays sorted, disjoint and merged");
  if (r) {
    VERIF_ASSERT(in_table(&t, w) == (w_pre || w == num), "S1 after recording block n the table holds exactly the old blocks plus n (a duplicate changes nothing)");
  } else {
    VERIF_ASSERT(in_table(&t, w) == w_pre && t.used == pre.used, "S1 a refused block (too many gaps) leaves the table unchanged");
    VERIF_ASSERT(!in_table(&pre, num) && pre.used == COAP_RBLOCK_CNT - 1, "S1 a block is refused only when it would need one range more than the table holds");
  }
  /* a transfer of 'total' blocks only ever records block numbers below total */
  if (t.used >= 1 && t.range[t.used - 1].end < total) {
    /* all blocks 0..total-1 received? */
    int all = __CPROVER_file_local_coap_block_c_check_all_blocks_in(&t, total);
    int exp = t.range[0].begin == 0 && t.range[0].end + 1 >= total;     /* merged table: the first range must cover everything */
    VERIF_ASSERT((all != 0) == (exp != 0), "S1 'all blocks in' exactly when blocks 0..total-1 are all recorded");
  }
#ifdef WITNESS
  if (r && t.used < pre.used) VERIF_REACH("S1 two ranges merged");
#endif
}

/* ---- L1: Block option value (RFC 7959 section 2.2) ------------------------------------------------------------------------- */
#ifndef BL
#define BL 1
#endif
VERIF_HARNESS(c09_l1_block_option) {
  VERIF_IN_BUF(v, BL + 1);
  VERIF_IN(uint8_t, reliable_bert);
  VERIF_ASSUME(reliable_bert <= 1);
  static uint8_t pbuf[24];
  static coap_pdu_t pdu;
  static coap_session_t sess;
  unsigned pos = 8, i;
  memset(&pdu, 0, sizeof(pdu));
  memset(&sess, 0, sizeof(sess));
  pdu.token = pbuf + 8;
  pbuf[pos++] = (uint8_t)(0xD0 | BL);     /* option 23 (Block2) = delta 13 + 10 */
  pbuf[pos++] = 10;
  for (i = 0; i < BL; i++) pbuf[pos++] = v[i];
  pdu.used_size = pdu.alloc_size = pos - 8;
  pdu.max_opt = 23;
  pdu.code = 0x45;
  sess.proto = reliable_bert ? COAP_PROTO_TCP : COAP_PROTO_UDP;
  sess.csm_bert_rem_support = sess.csm_bert_loc_support = reliable_bert;
  coap_block_b_t b;
  int r = coap_get_block_b(&sess, &pdu, COAP_OPTION_BLOCK2, &b);
  /* reference: value is a 0-3 byte unsigned integer; low 3 bits SZX, bit 3 M, rest NUM */
  uint32_t val = 0;
  for (i = 0; i < BL; i++) val = (val << 8) | v[i];
  uint32_t szx = val & 7, m = (val >> 3) & 1, num = val >> 4;
  if (szx == 7 && !reliable_bert) VERIF_ASSERT(r == 0, "L1 SZX 7 (BERT) is only accepted on a reliable session that negotiated it");
  else {
    VERIF_ASSERT(r == 1, "L1 a Block option of 0-3 bytes is accepted");
    VERIF_ASSERT(b.num == num && b.m == m && b.aszx == szx, "L1 NUM, M, SZX as RFC 7959 2.2 defines them");
    if (szx < 7) VERIF_ASSERT(b.szx == szx && b.chunk_size == (16u << szx), "L1 block size = 2^(SZX+4)");
    else VERIF_ASSERT(b.szx == 6 && b.bert == 1, "L1 BERT uses 1024-byte units");
  }
  {
    coap_opt_iterator_t oi;
    coap_opt_t *o = coap_check_option(&pdu, COAP_OPTION_BLOCK2, &oi);
    VERIF_ASSERT(o && coap_opt_block_num(o) == num, "L1 coap_opt_block_num = NUM");
  }
  VERIF_REACH("L1 end");
}
