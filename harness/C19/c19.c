/* C19 - (D)TLS sessions exchange application data only after the handshake: datagram gate (DESIGN 4.19) */
#include "common/netenv.h"
#include "common/unreach.h"

int __CPROVER_file_local_coap_net_c_coap_handle_dgram_for_proto(coap_context_t *ctx, coap_session_t *session, coap_packet_t *packet);

static int hello_calls, receive_calls, dispatch_calls, dgram_calls;
int coap_dtls_hello(coap_session_t *session, const uint8_t *data, size_t data_len) { (void)session; (void)data; (void)data_len; hello_calls++; return 0; }
int coap_dtls_receive(coap_session_t *session, const uint8_t *data, size_t data_len) { (void)session; (void)data; (void)data_len; receive_calls++; return 0; }
void coap_dispatch(coap_context_t *context, coap_session_t *session, coap_pdu_t *pdu) { (void)context; (void)session; (void)pdu; dispatch_calls++; }
int coap_handle_dgram(coap_context_t *ctx, coap_session_t *session, uint8_t *msg, size_t msg_len) { (void)ctx; (void)session; (void)msg; (void)msg_len; dgram_calls++; return 0; }

#ifndef N
#define N 8
#endif
VERIF_HARNESS(c19_s2_cleartext_injected) {
  ne_init();
  VERIF_IN_BUF(data, N);
  VERIF_IN(uint8_t, has_tls);
  VERIF_IN(uint8_t, is_hello);
  VERIF_IN(uint8_t, proto);
  VERIF_ASSUME(has_tls <= 1 && is_hello <= 1 && (proto == COAP_PROTO_DTLS || proto == COAP_PROTO_UDP));
  static coap_packet_t pkt;
  static int tls_obj;
  memset(&pkt, 0, sizeof(pkt));
  pkt.payload = data;
  pkt.length = N;
  ne_sess.proto = (coap_proto_t)proto;
  ne_sess.type = is_hello ? COAP_SESSION_TYPE_HELLO : COAP_SESSION_TYPE_SERVER;
  ne_sess.tls = has_tls ? &tls_obj : NULL;
  ne_sess.state = COAP_SESSION_STATE_HANDSHAKE;
  hello_calls = receive_calls = dispatch_calls = dgram_calls = 0;
  (void)__CPROVER_file_local_coap_net_c_coap_handle_dgram_for_proto(&ne_ctx, &ne_sess, &pkt);
  if (proto == COAP_PROTO_DTLS) {
    VERIF_ASSERT(dgram_calls == 0 && dispatch_calls == 0, "S2 a datagram arriving at a DTLS session is never parsed as cleartext CoAP nor dispatched to handlers");
    VERIF_ASSERT(hello_calls + receive_calls <= 1, "S2 it is handed to the DTLS layer at most once");
    if (!is_hello && !has_tls) VERIF_ASSERT(hello_calls + receive_calls == 0, "S2 without a TLS object nothing at all processes it");
  } else {
    VERIF_ASSERT(dgram_calls == 1 && hello_calls + receive_calls == 0, "S2 a datagram on a plain UDP session goes to the CoAP datagram handler");
  }
  VERIF_REACH("S2 end");
}
