/* C19-L1: the libcoap-owned PSK decision points inside the GnuTLS handshake: psk_server_callback / psk_client_callback of
 * coap_gnutls.c (statics, reached through exported symbols). GnuTLS itself is not encoded: its accessors used here
 * (gnutls_transport_get_ptr, gnutls_psk_client_get_hint, gnutls_malloc/free) are stubs; what GnuTLS does with the returned key
 * (the handshake only completes when both sides hold the same key) is the trusted part.
 * Decided: an identity the application's callback rejects / a hint the client callback rejects yields -1 and NO key material
 * (also when the session or context still holds a key from configuration or an earlier handshake); an accepted one yields exactly
 * the key bytes (and identity) the application chose. */
#include "common/netenv.h"
#include <gnutls/gnutls.h>

int __CPROVER_file_local_coap_gnutls_c_psk_server_callback(gnutls_session_t g_session, const char *identity, gnutls_datum_t *key);
int __CPROVER_file_local_coap_gnutls_c_psk_client_callback(gnutls_session_t g_session, char **username, gnutls_datum_t *key);

static void *g_malloc(size_t n) { void *p = malloc(n ? n : 1); __CPROVER_assume(p != NULL); return p; }
static void g_free(void *p) { free(p); }
gnutls_alloc_function gnutls_malloc = g_malloc;
gnutls_free_function gnutls_free = g_free;
void *gnutls_transport_get_ptr(gnutls_session_t s) { (void)s; return &ne_sess; }
static const char *g_hint;
const char *gnutls_psk_client_get_hint(gnutls_session_t s) { (void)s; return g_hint; }
unsigned int coap_dtls_get_overhead(coap_session_t *session) { (void)session; return 29; }

#ifndef KLEN
#define KLEN 3
#endif
static uint8_t cb_key_bytes[KLEN + 1], default_key_bytes[2] = {0xD0, 0xD1}, old_key_bytes[2] = {0x0A, 0x0B};
static coap_bin_const_t cb_key, default_key;
static int cb_accept, cb_calls;
static uint8_t cb_seen_id0;

static const coap_bin_const_t *
validate_id(coap_bin_const_t *identity, coap_session_t *session, void *arg) {
  (void)session; (void)arg;
  cb_calls++;
  cb_seen_id0 = identity->length ? identity->s[0] : 0;
  return cb_accept ? &cb_key : NULL;
}

VERIF_HARNESS(c19_l1_psk_server) {
  VERIF_IN_BUF(kb, KLEN + 1);
  VERIF_IN(uint8_t, accept);
  VERIF_IN(uint8_t, have_cb);
  VERIF_IN(uint8_t, have_default);
  VERIF_IN(uint8_t, have_old);
  VERIF_IN(uint8_t, idc);
  static char identity[3];
  static int dtls_ctx_obj;
  gnutls_datum_t key;
  int i, r;
  VERIF_ASSUME(accept <= 1 && have_cb <= 1 && have_default <= 1 && have_old <= 1 && idc != 0);
  ne_init();
  ne_sess.type = COAP_SESSION_TYPE_SERVER;
  ne_sess.proto = COAP_PROTO_DTLS;
  ne_sess.state = COAP_SESSION_STATE_HANDSHAKE;
  ne_ctx.dtls_context = &dtls_ctx_obj;
  for (i = 0; i < KLEN; i++) cb_key_bytes[i] = kb[i];
  cb_key.s = cb_key_bytes; cb_key.length = KLEN;
  cb_accept = accept; cb_calls = 0;
  ne_ctx.spsk_setup_data.validate_id_call_back = have_cb ? validate_id : NULL;
  if (have_default) {
    /* the key configured for the whole context */
    ne_ctx.spsk_setup_data.psk_info.key.s = default_key_bytes;
    ne_ctx.spsk_setup_data.psk_info.key.length = 2;
  }
  if (have_old) {
    /* key material the session tracks from an earlier handshake attempt */
    coap_bin_const_t old = {2, old_key_bytes};
    coap_session_refresh_psk_key(&ne_sess, &old);
  }
  identity[0] = (char)idc; identity[1] = 0;
  key.data = NULL; key.size = 0;
  r = __CPROVER_file_local_coap_gnutls_c_psk_server_callback(NULL, identity, &key);
  if (have_cb) {
    VERIF_ASSERT(cb_calls == 1 && cb_seen_id0 == idc, "L1 the application's identity check sees the identity the client presented, once");
    if (!accept) {
      VERIF_ASSERT(r == -1, "L1 an identity the server does not know is refused (-1), whatever key the context or session still holds");
      VERIF_ASSERT(key.data == NULL, "L1 no key material is handed to the TLS library for a refused identity");
    } else {
      VERIF_ASSERT(r == 0 && key.size == KLEN && key.data != NULL, "L1 an accepted identity yields a key");
      for (i = 0; i < KLEN; i++) VERIF_ASSERT(key.data[i] == kb[i], "L1 the key handed to the TLS library is exactly the key chosen for that identity");
    }
  } else if (!have_default && !have_old) {
    VERIF_ASSERT(r == -1 && key.data == NULL, "L1 without any configured key the handshake is refused");
  } else {
    VERIF_ASSERT(r == 0 && key.size == 2, "L1 without an identity callback the configured key is used");
  }
  VERIF_REACH("L1 server end");
}

static coap_dtls_cpsk_info_t cb_info;
static const coap_dtls_cpsk_info_t *
validate_ih(coap_str_const_t *hint, coap_session_t *session, void *arg) {
  (void)session; (void)arg;
  cb_calls++;
  cb_seen_id0 = hint->length ? hint->s[0] : 0;
  return cb_accept ? &cb_info : NULL;
}

VERIF_HARNESS(c19_l1_psk_client) {
  VERIF_IN_BUF(kb, KLEN + 1);
  VERIF_IN(uint8_t, accept);
  VERIF_IN(uint8_t, have_old);
  VERIF_IN(uint8_t, hc);
  static char hint[3];
  static uint8_t idb[2] = {'i', 'd'};
  static int dtls_ctx_obj;
  gnutls_datum_t key;
  char *username = NULL;
  int i, r;
  VERIF_ASSUME(accept <= 1 && have_old <= 1 && hc != 0);
  ne_init();
  ne_sess.proto = COAP_PROTO_DTLS;
  ne_sess.state = COAP_SESSION_STATE_HANDSHAKE;
  ne_ctx.dtls_context = &dtls_ctx_obj;
  for (i = 0; i < KLEN; i++) cb_key_bytes[i] = kb[i];
  cb_info.identity.s = idb; cb_info.identity.length = 2;
  cb_info.key.s = cb_key_bytes; cb_info.key.length = KLEN;
  cb_accept = accept; cb_calls = 0;
  ne_sess.cpsk_setup_data.validate_ih_call_back = validate_ih;
  if (have_old) {
    coap_bin_const_t old = {2, old_key_bytes};
    coap_session_refresh_psk_key(&ne_sess, &old);
    coap_session_refresh_psk_identity(&ne_sess, &old);
  }
  hint[0] = (char)hc; hint[1] = 0;
  g_hint = hint;
  key.data = NULL; key.size = 0;
  r = __CPROVER_file_local_coap_gnutls_c_psk_client_callback(NULL, &username, &key);
  VERIF_ASSERT(cb_calls == 1 && cb_seen_id0 == hc, "L1 the application's hint check sees the hint the server sent, once");
  if (!accept) {
    VERIF_ASSERT(r == -1 && key.data == NULL && username == NULL, "L1 a hint the client rejects yields no identity and no key, whatever the session still holds");
  } else {
    VERIF_ASSERT(r == 0 && key.size == KLEN && key.data != NULL && username != NULL, "L1 an accepted hint yields identity and key");
    for (i = 0; i < KLEN; i++) VERIF_ASSERT(key.data[i] == kb[i], "L1 the key handed to the TLS library is exactly the key chosen for that hint");
    VERIF_ASSERT(username[0] == 'i' && username[1] == 'd' && username[2] == 0, "L1 the identity handed to the TLS library is the one chosen for that hint");
  }
  VERIF_REACH("L1 client end");
}
