/* C01 - wire codec round trip for API-built messages (DESIGN 4.1) */
#include "coap3/coap_libcoap_build.h"
#include "common/verif.h"
#include "common/pdu_model.h"
#include "ref/ref_codec.h"
#include <stdlib.h>

#define BIG 70016
static uint8_t big[BIG];

#ifndef PROTO
#define PROTO 1
#endif
#if PROTO == 1 || PROTO == 2
#define RPROTO REF_UDP
#elif PROTO == 3 || PROTO == 4
#define RPROTO REF_TCP
#else
#define RPROTO REF_WS
#endif

/* ---- L1: option header encoders, full range ---------------------------------------------------------- */
VERIF_HARNESS(c01_l1_opt_header) {
  VERIF_IN(uint16_t, delta);
  VERIF_IN(uint32_t, length);
  VERIF_IN(uint8_t, maxlen);
  VERIF_ASSUME(length <= 65804u);   /* largest encodable option length: 65535 + 269 */
  VERIF_ASSUME(maxlen <= 8);
  unsigned i;
  for (i = 0; i < 8; i++) big[i] = VERIF_CANARY;
  size_t r = coap_opt_setheader(big, maxlen, delta, length);
  uint8_t rb[5];
  size_t rh = ref_opt_encode_header(rb, delta, length);
  VERIF_ASSERT(r == (maxlen >= rh ? rh : 0), "L1 setheader returns the minimal header size, or 0 when it does not fit");
  for (i = 0; i < 8; i++)
    if (i >= maxlen) VERIF_ASSERT(big[i] == VERIF_CANARY, "L1 setheader never writes at or beyond maxlen");
  if (r) {
    for (i = 0; i < 5; i++)
      if (i < rh) VERIF_ASSERT(big[i] == rb[i], "L1 header bytes are the unique minimal RFC 7252 3.1 encoding");
    VERIF_ASSERT(coap_opt_encode_size(delta, length) == rh + length, "L1 encode_size = header + value");
    {
      coap_option_t res;
      size_t p = coap_opt_parse(big, rh + length, &res);
      VERIF_ASSERT(p == rh + length && res.delta == delta && res.length == length && res.value == big + rh,
                   "L1 parse(setheader(delta,length)) = (delta,length)");
      /* one byte short: truncated value must be rejected */
      if (length > 0) VERIF_ASSERT(coap_opt_parse(big, rh + length - 1, &res) == 0, "L1 truncated option rejected");
    }
  }
#ifdef WITNESS
  if (r == 5) VERIF_REACH("L1 5-byte header produced");
#endif
}

VERIF_HARNESS(c01_l1_opt_encode) {
  VERIF_IN(uint16_t, delta);
  VERIF_IN(uint32_t, length);
  VERIF_IN(uint32_t, maxlen);
  VERIF_ASSUME(length <= 65804u);
  VERIF_ASSUME(maxlen <= 70000u);
  uint8_t rb[5];
  size_t rh = ref_opt_encode_header(rb, delta, length);
  /* val == NULL: the library's own guard skips the value copy (symbolic-size memcpy is covered with concrete
   * lengths in B1) */
  size_t r = coap_opt_encode(big, maxlen, delta, NULL, length);
  VERIF_ASSERT(r == ((uint64_t)maxlen >= rh + (uint64_t)length ? rh + length : 0), "L1 opt_encode returns header+value size iff it fits maxlen");
#ifdef WITNESS
  if (r > 65000) VERIF_REACH("L1 opt_encode large");
#endif
}

/* ---- L2: message header for every token length and body size ------------------------------------------ */
VERIF_HARNESS(c01_l2_msg_header) {
  VERIF_IN(uint8_t, type);
  VERIF_IN(uint8_t, code);
  VERIF_IN(uint16_t, mid);
  VERIF_IN(uint32_t, tkl);
  VERIF_IN(uint32_t, body);
  VERIF_ASSUME(type <= 3);
  VERIF_ASSUME(tkl <= 65804u);
#ifndef BODY_LO
#define BODY_LO 0
#define BODY_HI (8u * 1024 * 1024 + 256)
#endif
  VERIF_ASSUME(body >= BODY_LO && body <= BODY_HI);
  uint32_t ext = tkl < 13 ? 0 : (tkl < 269 ? 1 : 2);
  coap_pdu_t pdu;
  memset(&pdu, 0, sizeof(pdu));
  pdu.max_hdr_size = 6;
  static uint8_t hb[32];      /* only the header and the two token-extension bytes are ever touched */
  pdu.token = hb + 8;
  pdu.type = type;
  pdu.code = code;
  pdu.mid = mid;
  pdu.actual_token.length = tkl;
  pdu.actual_token.s = pdu.token + ext;
  pdu.e_token_length = tkl + ext;
  pdu.used_size = (size_t)tkl + ext + body;
  pdu.alloc_size = pdu.used_size;
  uint8_t rb[8];
  uint32_t rhs = 0;
  size_t rn = ref_encode_header(RPROTO, type, code, mid, tkl, body, rb, &rhs);
  /* token-length extension bytes as coap_add_token writes them (checked in job L2t) */
  if (ext == 1) pdu.token[0] = rb[rhs];
  if (ext == 2) { pdu.token[0] = rb[rhs]; pdu.token[1] = rb[rhs + 1]; }
  (void)rn;
  size_t hs = coap_pdu_encode_header(&pdu, PROTO);
  VERIF_ASSERT(hs == rhs && pdu.hdr_size == rhs, "L2 header size equals reference (UDP 4; TCP 2/3/4/6; WS 2)");
  {
    unsigned i;
    for (i = 0; i < 6; i++)
      if (i < rhs) VERIF_ASSERT(pdu.token[(int)i - (int)rhs] == rb[i], "L2 header bytes equal the reference encoding");
  }
  const uint8_t *wire = pdu.token - hs;
  VERIF_ASSERT(coap_pdu_parse_header_size(PROTO, wire) == hs, "L2 parse_header_size(encode) = header size");
#if RPROTO == REF_TCP
  VERIF_ASSERT(coap_pdu_parse_size(PROTO, wire, 8) == pdu.used_size, "L2 parse_size(encode) = token field + options + payload");
#endif
  {
    coap_pdu_t q;
    memset(&q, 0, sizeof(q));
    q.max_hdr_size = 6;
    q.hdr_size = (uint8_t)hs;
    q.token = pdu.token;
    q.alloc_size = pdu.used_size;
    q.used_size = pdu.used_size;
    int ok = coap_pdu_parse_header(&q, PROTO);
    VERIF_ASSERT(ok, "L2 encoded header is accepted");
    VERIF_ASSERT(q.code == code, "L2 code round trip");
    VERIF_ASSERT(q.actual_token.length == tkl && q.actual_token.s == pdu.actual_token.s && q.e_token_length == pdu.e_token_length,
                 "L2 token length/position round trip (RFC 8974 forms)");
#if RPROTO == REF_UDP
    VERIF_ASSERT(q.type == type && q.mid == mid, "L2 type and mid round trip");
#else
    VERIF_ASSERT(q.type == COAP_MESSAGE_CON, "L2 reliable transports report CON");
#endif
  }
#ifdef WITNESS
  if (tkl > 300) VERIF_REACH("L2 header with 2-byte extended token");
#endif
}

/* ---- L2t: coap_add_token with concrete length TKL (memcpy size), symbolic bytes ------------------------ */
#ifndef TKL
#define TKL 0
#endif
VERIF_HARNESS(c01_l2t_add_token) {
#if TKL > 0
  VERIF_IN_BUF(tok, TKL);
#else
  uint8_t tok[1] = {0};
#endif
  coap_pdu_t *pdu = coap_pdu_init(COAP_MESSAGE_CON, 1, 0x1234, 70000);
  int r = coap_add_token(pdu, TKL, tok);
  VERIF_ASSERT(r == 1, "L2t token accepted");
  uint8_t rb[8];
  uint32_t rhs;
  size_t rn = ref_encode_header(REF_UDP, 0, 1, 0x1234, TKL, 0, rb, &rhs);
  uint32_t ext = (uint32_t)(rn - rhs);
  VERIF_ASSERT(pdu->e_token_length == TKL + ext && pdu->used_size == TKL + ext, "L2t e_token_length and used_size");
  VERIF_ASSERT(pdu->actual_token.length == TKL && pdu->actual_token.s == pdu->token + ext, "L2t token view");
  if (ext >= 1) VERIF_ASSERT(pdu->token[0] == rb[rhs], "L2t extension byte 0 (RFC 8974)");
  if (ext == 2) VERIF_ASSERT(pdu->token[1] == rb[rhs + 1], "L2t extension byte 1 (RFC 8974)");
  MODEL_BYTES_EQ(pdu->actual_token.s, tok, TKL, "L2t token bytes");
  VERIF_ASSERT(coap_add_token(pdu, TKL, tok) == (TKL == 0), "L2t a second token is refused once bytes are present");
  VERIF_REACH("L2t end");
}

/* ---- B1: build -> encode -> parse on a concrete layout with symbolic content ---------------------------- */
#ifndef K
#define K 0
#endif
#ifndef NUM1
#define NUM1 0
#define LEN1 0
#endif
#ifndef NUM2
#define NUM2 0
#define LEN2 0
#endif
#ifndef NUM3
#define NUM3 0
#define LEN3 0
#endif
#ifndef PL
#define PL 0
#endif
#ifndef MAXSIZE
#define MAXSIZE 1152
#endif

static int
is_request_code(uint8_t c) {
  return c >= 1 && c < 32;
}

/* what the API promises for one coap_add_option call: an option that does not illegally repeat a non-repeatable
 * number must be accepted (space permitting); an illegal repetition may be refused - if it is, nothing changes.
 * r is the library's verdict; returns 0 if the verdict contradicts the promise. */
static int
model_add(model_t *m, uint8_t code, uint32_t num, uint32_t len, const uint8_t *val, const uint8_t *hop, size_t r) {
  int illegal_repeat = model_find(m, num) >= 0 && !coap_option_check_repeatable((coap_option_num_t)num);
  if (r == 0) return illegal_repeat;
  /* RFC 8768: a request carrying Proxy-Uri/Proxy-Scheme gets a default Hop-Limit (16) if it has none */
  if (is_request_code(code) && (num == 35 || num == 39) && model_find(m, 16) < 0)
    model_insert(m, 16, 1, hop);
  model_insert(m, num, len, val);
  return 1;
}

VERIF_HARNESS(c01_b1_roundtrip) {
  VERIF_IN(uint8_t, type);
  VERIF_IN(uint16_t, mid);
  /* the code is concrete per job (a symbolic code makes the parser's empty-message branch feasible for symex and
   * with it every length symbolic); request and response codes are separate jobs */
#ifndef CODE
#define CODE 0x45
#endif
  const uint8_t code = CODE;
  VERIF_ASSUME(type <= 3);
#if (RPROTO != REF_UDP)
  VERIF_ASSUME(type == 0);
#endif
#if TKL > 0
  VERIF_IN_BUF(tok, TKL);
#else
  uint8_t tok[1] = {0};
#endif
  VERIF_IN_BUF(v1, LEN1 + 1);
  VERIF_IN_BUF(v2, LEN2 + 1);
  VERIF_IN_BUF(v3, LEN3 + 1);
  VERIF_IN_BUF(pl, PL + 1);
  static const uint8_t hop[1] = {16};
  static model_t m;
  m.n = 0;
  m.tkl = TKL; m.tok = tok; m.plen = PL; m.pl = pl;
  coap_pdu_t *pdu = coap_pdu_init(type, code, mid, MAXSIZE);
  VERIF_ASSERT(pdu != NULL, "B1 pdu allocated");
  int rt = coap_add_token(pdu, TKL, tok);
  VERIF_ASSERT(rt == 1, "B1 token accepted");
  size_t r;
  int exp;
#if K >= 1
  r = coap_add_option(pdu, NUM1, LEN1, v1);
  exp = model_add(&m, code, NUM1, LEN1, v1, hop, r);
  VERIF_ASSERT(exp, "B1 add #1: accepted unless it illegally repeats a non-repeatable option");
#endif
#if K >= 2
  r = coap_add_option(pdu, NUM2, LEN2, v2);
  exp = model_add(&m, code, NUM2, LEN2, v2, hop, r);
  VERIF_ASSERT(exp, "B1 add #2: accepted unless it illegally repeats a non-repeatable option");
#endif
#if K >= 3
  r = coap_add_option(pdu, NUM3, LEN3, v3);
  exp = model_add(&m, code, NUM3, LEN3, v3, hop, r);
  VERIF_ASSERT(exp, "B1 add #3: accepted unless it illegally repeats a non-repeatable option");
#endif
  VERIF_ASSERT(coap_add_data(pdu, PL, pl) == 1, "B1 payload accepted");
  model_check_pdu(pdu, &m);
  /* options after data are refused and change nothing */
#if PL > 0
  VERIF_ASSERT(coap_add_option(pdu, 65000, 1, v1) == 0, "B1 option after payload refused");
  model_check_pdu(pdu, &m);
#endif
  size_t hs = coap_pdu_encode_header(pdu, PROTO);
  VERIF_ASSERT(hs != 0, "B1 header encoded");
  const uint8_t *wire = pdu->token - hs;
  size_t wn = hs + pdu->used_size;
  /* independent well-formedness + decoding */
  static ref_msg_t rm;
  int rok = ref_decode(RPROTO, wire, wn, &rm);
  VERIF_ASSERT(rok, "B1 serialisation is well-formed for the reference decoder");
  if (rok) {
    VERIF_ASSERT(rm.code == code && rm.tkl == TKL && rm.nopts == m.n && rm.payload_len == PL, "B1 reference decoding has the same shape");
#if RPROTO == REF_UDP
    VERIF_ASSERT(rm.type == type && rm.mid == mid, "B1 reference decoding has the same type/mid");
#endif
#if RPROTO == REF_TCP
    VERIF_ASSERT(ref_tcp_total_size(wire, wn) == wn, "B1 TCP length prefix equals the serialised size");
#endif
    unsigned i;
    for (i = 0; i < m.n && i < REF_MAX_OPTS; i++)
      VERIF_ASSERT(rm.opts[i].number == m.o[i].num && rm.opts[i].length == m.o[i].len, "B1 reference decoding has the same option numbers/lengths");
  }
  /* the library's own parser on a fresh PDU */
  uint8_t *copy = malloc(wn);
  __CPROVER_assume(copy != NULL);
  memcpy(copy, wire, wn);
  coap_pdu_t *q = coap_pdu_init(0, 0, 0, MAXSIZE > 1152 ? MAXSIZE : 1152);
  int pr = coap_pdu_parse(PROTO, copy, wn, q);
  VERIF_ASSERT(pr == 1, "B1 parse(serialise(m)) succeeds");
  if (pr) {
    VERIF_ASSERT(q->code == code, "B1 code round trip");
#if RPROTO == REF_UDP
    VERIF_ASSERT(q->type == type && q->mid == mid, "B1 type/mid round trip");
#endif
    model_check_pdu(q, &m);
  }
  VERIF_REACH("B1 end");
}

/* ---- B1r: space exhausted: the refused add leaves the message unchanged ---------------------------------- */
VERIF_HARNESS(c01_b1_refuse_space) {
  const uint8_t code = 0x45;
#if TKL > 0
  VERIF_IN_BUF(tok, TKL);
#else
  uint8_t tok[1] = {0};
#endif
  VERIF_IN_BUF(v1, LEN1 + 1);
  VERIF_IN_BUF(v2, LEN2 + 1);
  static model_t m;
  m.n = 0; m.tkl = TKL; m.tok = tok; m.plen = 0; m.pl = tok;
  coap_pdu_t *pdu = coap_pdu_init(0, code, 1, MAXSIZE);
  VERIF_ASSERT(coap_add_token(pdu, TKL, tok) == 1, "B1r token accepted");
  size_t r1 = coap_add_option(pdu, NUM1, LEN1, v1);
  VERIF_ASSERT(r1 != 0, "B1r first option fits");
  model_insert(&m, NUM1, LEN1, v1);
  size_t need = pdu->used_size + coap_opt_encode_size(NUM2 > NUM1 ? NUM2 - NUM1 : NUM2, LEN2);
  size_t r2 = coap_add_option(pdu, NUM2, LEN2, v2);
  if (NUM2 >= NUM1) {
    VERIF_ASSERT((r2 != 0) == (need <= MAXSIZE), "B1r appended option accepted iff it fits max_size");
  }
  if (r2 != 0) model_insert(&m, NUM2, LEN2, v2);
  model_check_pdu(pdu, &m);
  VERIF_ASSERT(pdu->used_size <= MAXSIZE, "B1r message never exceeds max_size");
#ifdef WITNESS
#ifdef WIT_REFUSE
  if (r2 == 0) VERIF_REACH("B1r refusal reached");
#else
  if (r2 != 0) VERIF_REACH("B1r acceptance reached");
#endif
#endif
}
