/* C18 - any allocation failure is survived (DESIGN 4.18).
 * env.c is built with ENV_ALLOC_MAY_FAIL: every coap_malloc_type/coap_realloc_type call may return NULL, independently
 * (any SUBSET of allocations fails in one query, which includes "exactly the k-th"). Scenario data is concrete-control.
 * CBMC's --memory-leak-check decides "no leak"; its deallocated-object obligations decide "no double free / use after free". */
#include "common/netenv.h"
#include "common/unreach.h"
#include "common/pdu_model.h"

extern int env_alloc_fail_enabled;
extern unsigned env_alloc_calls, env_alloc_failed;

/* ---- 1: building a message --------------------------------------------------------------------------------------------- */
#ifndef BUILD_VARIANT
#define BUILD_VARIANT 0
#endif
VERIF_HARNESS(c18_build) {
  VERIF_IN_BUF(tok, 4);
  VERIF_IN_BUF(v1, 4);
  static uint8_t big[252];
  static model_t m;
  m.n = 0; m.tkl = 0; m.tok = tok; m.plen = 0; m.pl = tok;
  env_alloc_fail_enabled = 1;
  coap_pdu_t *pdu = coap_pdu_init(COAP_MESSAGE_CON, 1, 0x1234, 1152);
  if (!pdu) {
    /* clean failure; memory available again: the same call succeeds */
    env_alloc_fail_enabled = 0;
    pdu = coap_pdu_init(COAP_MESSAGE_CON, 1, 0x1234, 1152);
    VERIF_ASSERT(pdu != NULL, "build: after a failed coap_pdu_init the next one succeeds");
    coap_delete_pdu(pdu);
    VERIF_REACH("build: pdu_init failed");
    return;
  }
  if (coap_add_token(pdu, 4, tok)) m.tkl = 4;
  if (coap_add_option(pdu, 11, 3, v1)) model_insert(&m, 11, 3, v1);
#if BUILD_VARIANT == 0
  /* 252-byte option: together with the rest it exceeds the initial 256-byte allocation and forces the buffer to grow (realloc) */
  if (coap_add_option(pdu, 2049, 252, big)) model_insert(&m, 2049, 252, big);
#else
  /* out of order (insert path) with a value that no longer fits the initial 256-byte allocation */
  if (coap_add_option(pdu, 2049, 100, big)) model_insert(&m, 2049, 100, big);
  if (coap_insert_option(pdu, 12, 150, big)) model_insert(&m, 12, 150, big);
#endif
  if (coap_add_data(pdu, 2, v1)) { m.plen = 2; m.pl = v1; }
  /* whatever failed was refused cleanly: the message is exactly what was accepted */
  model_check_pdu(pdu, &m);
  env_alloc_fail_enabled = 0;
  if (!m.plen) VERIF_ASSERT(coap_add_option(pdu, 65000, 2, v1) != 0, "build: with memory available the next add succeeds");
  coap_delete_pdu(pdu);
#ifdef WITNESS
  if (env_alloc_failed >= 1 && m.n >= 1) VERIF_REACH("build: a later allocation failed");
#endif
}

/* ---- 2: URI / optlist helpers ---------------------------------------------------------------------------------------------- */
VERIF_HARNESS(c18_optlist) {
  static const uint8_t path[] = "ab/c%41", query[] = "x=1&y";
  coap_optlist_t *chain = NULL;
  env_alloc_fail_enabled = 1;
  int r1 = coap_path_into_optlist(path, sizeof(path) - 1, COAP_OPTION_URI_PATH, &chain);
  int r2 = coap_query_into_optlist(query, sizeof(query) - 1, COAP_OPTION_URI_QUERY, &chain);
  if (r1 && r2 && env_alloc_failed == 0) {
    int n = 0;
    coap_optlist_t *o;
    for (o = chain; o && n < 8; o = o->next) n++;
    VERIF_ASSERT(n == 4, "optlist: without failures two path and two query options are produced");
  }
  if (env_alloc_failed) VERIF_ASSERT(!(r1 && r2), "optlist: a failed allocation is reported by the return value");
  coap_delete_optlist(chain);
  chain = NULL;
  env_alloc_fail_enabled = 0;
  VERIF_ASSERT(coap_path_into_optlist(path, sizeof(path) - 1, COAP_OPTION_URI_PATH, &chain) == 1, "optlist: with memory available the conversion succeeds");
  coap_delete_optlist(chain);
#ifdef WITNESS
  if (env_alloc_failed >= 1) VERIF_REACH("optlist: an allocation failed");
#endif
}

/* ---- 3: sending a Confirmable: the PDU is consumed exactly once, also on failure --------------------------------------------- */
VERIF_HARNESS(c18_send) {
  ne_init();
  VERIF_IN_BUF(tok, 4);
  env_alloc_fail_enabled = 0;
  coap_pdu_t *pdu = coap_pdu_init(COAP_MESSAGE_CON, 1, 0x4321, 256);
  coap_add_token(pdu, 4, tok);
  env_alloc_fail_enabled = 1;
  coap_mid_t r = coap_send_internal(&ne_sess, pdu);
  /* ownership: pdu now belongs to the library whatever happened; on failure it has been freed, on success it is
   * referenced by the retransmission node */
  if (r == COAP_INVALID_MID) {
    VERIF_ASSERT(ne_ctx.sendqueue == NULL && ne_sess.delayqueue == NULL, "send: after a failed send nothing refers to the consumed PDU");
  } else {
    VERIF_ASSERT(ne_ctx.sendqueue && ne_ctx.sendqueue->pdu == pdu && ne_tx_count == 1, "send: success queues the PDU for retransmission");
    /* tidy up for the leak check */
    coap_queue_t *n = coap_pop_next(&ne_ctx);
    coap_delete_node_lkd(n);
    VERIF_ASSERT(ne_sess.con_active == 1, "send: a transmitted Confirmable holds one NSTART slot");
    ne_sess.con_active--;        /* the exchange completes (what the ACK path does) */
  }
  VERIF_ASSERT(ne_sess.con_active == 0, "send: a send that failed holds no NSTART slot");
  env_alloc_fail_enabled = 0;
  {
    /* the next operation is another Confirmable: it must go out, not wait for an NSTART slot nobody will ever release */
    int tx_before = ne_tx_count;
    coap_pdu_t *p2 = coap_pdu_init(COAP_MESSAGE_CON, 1, 0x4322, 256);
    VERIF_ASSERT(p2 && coap_send_internal(&ne_sess, p2) != COAP_INVALID_MID, "send: with memory available the next send succeeds");
    VERIF_ASSERT(ne_tx_count == tx_before + 1 && ne_sess.delayqueue == NULL,
                 "send: with memory available the next Confirmable is transmitted (the failed send did not keep an NSTART slot)");
    coap_queue_t *n2 = coap_pop_next(&ne_ctx);
    coap_delete_node_lkd(n2);
  }
#ifdef WITNESS
  if (r == COAP_INVALID_MID) VERIF_REACH("send: failed after the allocation failure");
#endif
}

/* ---- 4: strings derived from a request ---------------------------------------------------------------------------------------- */
VERIF_HARNESS(c18_strings) {
  VERIF_IN_BUF(v, 2);
  env_alloc_fail_enabled = 0;
  coap_pdu_t *req = coap_pdu_init(COAP_MESSAGE_CON, 1, 1, 256);
  coap_add_option(req, COAP_OPTION_URI_PATH, 2, (const uint8_t *)"ab");
  coap_add_option(req, COAP_OPTION_URI_QUERY, 2, (const uint8_t *)"q1");
  env_alloc_fail_enabled = 1;
  coap_string_t *p = coap_get_uri_path(req);
  coap_string_t *q = coap_get_query(req);
  coap_opt_filter_t f;
  coap_option_filter_clear(&f);
  coap_pdu_t *err = coap_new_error_response(req, COAP_RESPONSE_CODE(404), &f);
  if (p) VERIF_ASSERT(p->length == 2 && p->s[0] == 'a', "strings: a produced path is complete");
  if (q) VERIF_ASSERT(q->length == 2 && q->s[0] == 'q', "strings: a produced query is complete");
  if (err) VERIF_ASSERT(err->code == COAP_RESPONSE_CODE(404) && err->mid == 1, "strings: a produced error response is complete");
  if (env_alloc_failed == 0) VERIF_ASSERT(p && q && err, "strings: without failures everything is produced");
  coap_delete_string(p);
  coap_delete_string(q);
  coap_delete_pdu(err);
  coap_delete_pdu(req);
  (void)v;
#ifdef WITNESS
  if (env_alloc_failed >= 1 && p) VERIF_REACH("strings: a later allocation failed");
#endif
}

/* ---- 5: a whole URI into an option list (Uri-Host, Uri-Port, Uri-Path, Uri-Query) ---------------------------------------------- */
static int
count_opt(coap_optlist_t *chain, uint16_t number) {
  int n = 0, k;
  coap_optlist_t *o;
  for (o = chain, k = 0; o && k < 8; o = o->next, k++)
    if (o->number == number) n++;
  return n;
}
VERIF_HARNESS(c18_uri) {
  static const uint8_t host[] = "Ab", path[] = "p", query[] = "q";
  coap_uri_t uri;
  coap_address_t dst;
  coap_optlist_t *chain = NULL;
  int r;
  memset(&uri, 0, sizeof(uri));
  memset(&dst, 0, sizeof(dst));
  uri.scheme = COAP_URI_SCHEME_COAP;
  uri.host.s = host; uri.host.length = 2;      /* differs from the printed destination address: Uri-Host is needed */
  uri.port = 61616;                            /* not the default port: Uri-Port is needed */
  uri.path.s = path; uri.path.length = 1;
  uri.query.s = query; uri.query.length = 1;
  env_alloc_fail_enabled = 1;
  r = coap_uri_into_optlist(&uri, &dst, &chain, 1);
  if (r) {
    VERIF_ASSERT(count_opt(chain, COAP_OPTION_URI_HOST) == 1 && count_opt(chain, COAP_OPTION_URI_PORT) == 1 &&
                 count_opt(chain, COAP_OPTION_URI_PATH) == 1 && count_opt(chain, COAP_OPTION_URI_QUERY) == 1,
                 "uri: a conversion reported as successful holds every option of the URI (nothing silently dropped)");
  }
  if (env_alloc_failed) VERIF_ASSERT(!r, "uri: a failed allocation is reported by the return value");
  else VERIF_ASSERT(r, "uri: without failures the conversion succeeds");
  coap_delete_optlist(chain);
  chain = NULL;
  env_alloc_fail_enabled = 0;
  VERIF_ASSERT(coap_uri_into_optlist(&uri, &dst, &chain, 1) == 1 && count_opt(chain, COAP_OPTION_URI_HOST) == 1, "uri: with memory available the conversion succeeds");
  coap_delete_optlist(chain);
#ifdef WITNESS
  if (env_alloc_failed >= 1) VERIF_REACH("uri: an allocation failed");
#endif
}

/* ---- 6: observe registration --------------------------------------------------------------------------------------------------- */
#ifdef C18_OBSERVE
/* the cache key is a SHA-256 computed in GnuTLS (not encodable): an allocation of the key object that may fail like any other */
coap_cache_key_t *
coap_cache_derive_key_w_ignore(const coap_session_t *session, const coap_pdu_t *pdu, coap_cache_session_based_t session_based,
                               const uint16_t *cache_ignore_options, size_t cache_ignore_count) {
  (void)session; (void)pdu; (void)session_based; (void)cache_ignore_options; (void)cache_ignore_count;
  coap_cache_key_t *k = (coap_cache_key_t *)coap_malloc_type(COAP_CACHE_KEY, sizeof(coap_cache_key_t));
  if (k) memset(k, 0, sizeof(*k));
  return k;
}
void coap_delete_cache_key(coap_cache_key_t *cache_key) { coap_free_type(COAP_CACHE_KEY, cache_key); }

VERIF_HARNESS(c18_observe) {
  static coap_resource_t res;
  VERIF_IN_BUF(tokb, 2);                /* token bytes symbolic; the failing allocation is concrete per job */
  coap_bin_const_t token = {2, tokb};
  coap_subscription_t *s;
  unsigned ref_before;
  ne_init();
  ne_sess.type = COAP_SESSION_TYPE_SERVER;
  memset(&res, 0, sizeof(res));
  res.context = &ne_ctx;
  res.observable = 1;
  env_alloc_fail_enabled = 0;
  coap_pdu_t *req = coap_pdu_init(COAP_MESSAGE_CON, COAP_REQUEST_CODE_GET, 0x1234, 64);
  coap_add_token(req, 2, tokb);
  coap_add_option(req, COAP_OPTION_OBSERVE, 0, NULL);
  coap_add_option(req, COAP_OPTION_URI_PATH, 1, (const uint8_t *)"o");
  ref_before = ne_sess.ref;
  env_alloc_fail_enabled = 1;
  s = coap_add_observer(&res, &ne_sess, &token, req);
  if (!s) {
    VERIF_ASSERT(res.subscribers == NULL, "observe: a failed registration leaves no half-built subscription behind");
    VERIF_ASSERT(ne_sess.ref == ref_before, "observe: a failed registration holds no session reference");
  } else {
    VERIF_ASSERT(res.subscribers == s && s->next == NULL && ne_sess.ref == ref_before + 1, "observe: success registers one subscription holding one session reference");
  }
  if (env_alloc_failed == 0) VERIF_ASSERT(s != NULL, "observe: without failures the registration succeeds");
  env_alloc_fail_enabled = 0;
  if (!s) {
    s = coap_add_observer(&res, &ne_sess, &token, req);
    VERIF_ASSERT(s != NULL && res.subscribers == s, "observe: with memory available the next registration succeeds");
  }
  /* documented cleanup; afterwards nothing may be left allocated (memory-leak check) */
  VERIF_ASSERT(coap_delete_observer(&res, &ne_sess, &token) == 1 && res.subscribers == NULL, "observe: the subscription can be cancelled");
  VERIF_ASSERT(ne_sess.ref == ref_before, "observe: cancelling gives the session reference back");
  coap_delete_pdu(req);
#ifdef WITNESS
  if (env_alloc_failed >= 1) VERIF_REACH("observe: an allocation failed");
#endif
}
#endif

/* ---- 7: handing a large body to libcoap (client Block1): coap_add_data_large_request_lkd --------------------------------------- */
#ifdef C18_LARGE
static int large_rel_calls;
static void large_release(coap_session_t *session, void *app_ptr) { (void)session; (void)app_ptr; large_rel_calls++; }
VERIF_HARNESS(c18_large) {
#ifdef C18_LARGE_SYMBODY
  VERIF_IN_BUF(body, 100);
#else
  static const uint8_t body[100] = {1, 2, 3};      /* the body is only copied; the symbolic input of this scenario is the failing allocation */
#endif
  static const uint8_t tokb[2] = {0x51, 0x52};
  int r;
  ne_init();
  ne_sess.block_mode = COAP_BLOCK_USE_LIBCOAP | COAP_BLOCK_SINGLE_BODY;
  env_alloc_fail_enabled = 0;
  large_rel_calls = 0;
  coap_pdu_t *pdu = coap_pdu_init(COAP_MESSAGE_CON, COAP_REQUEST_CODE_PUT, 0x1234, 128);   /* 100 bytes do not fit (42 are reserved for an Echo option): transfer state (lg_xmit) is needed */
  coap_add_token(pdu, 2, tokb);
  coap_add_option(pdu, COAP_OPTION_URI_PATH, 1, (const uint8_t *)"r");
  env_alloc_fail_enabled = 1;
  r = coap_add_data_large_request_lkd(&ne_sess, pdu, 100, body, large_release, NULL);
  env_alloc_fail_enabled = 0;
  if (!r) {
    VERIF_ASSERT(large_rel_calls == 1, "large: a refused body is released exactly once");
    VERIF_ASSERT(ne_sess.lg_xmit == NULL, "large: a refused body leaves no transfer state behind");
    /* the PDU still belongs to the caller and must still be a valid object */
    VERIF_ASSERT(pdu->actual_token.length == 2 && pdu->actual_token.s[0] == 0x51, "large: the caller's PDU is intact after the refusal");
  } else {
    coap_lg_xmit_t *lg = ne_sess.lg_xmit;
    VERIF_ASSERT(large_rel_calls == 0 && lg != NULL && lg->next == NULL, "large: an accepted 100-byte body is kept by one transfer state");
    LL_DELETE(ne_sess.lg_xmit, lg);
    coap_block_delete_lg_xmit(&ne_sess, lg);
    VERIF_ASSERT(large_rel_calls == 1, "large: dropping the transfer releases the body exactly once");
  }
  if (env_alloc_failed == 0) VERIF_ASSERT(r, "large: without failures the body is accepted");
  coap_delete_pdu(pdu);
#ifdef C18_LARGE_SECOND
  {
    coap_pdu_t *p2 = coap_pdu_init(COAP_MESSAGE_CON, COAP_REQUEST_CODE_PUT, 0x1235, 128);
    coap_add_token(p2, 2, tokb);
    VERIF_ASSERT(p2 && coap_add_data_large_request_lkd(&ne_sess, p2, 100, body, large_release, NULL) == 1, "large: with memory available the next upload is accepted");
    coap_lg_xmit_t *lg = ne_sess.lg_xmit;
    if (lg) { LL_DELETE(ne_sess.lg_xmit, lg); coap_block_delete_lg_xmit(&ne_sess, lg); }
    coap_delete_pdu(p2);
  }
#endif
#ifdef WITNESS
  if (env_alloc_failed >= 1 && !r) VERIF_REACH("large: an allocation failed");
#endif
}
#endif

/* ---- 8: block-wise reassembly buffer (coap_block_build_body): first block allocates, a block beyond the announced total grows ----
 * Contract (coap_block_internal.h): returns the (possibly moved) body, or NULL "if there was a failure" in which case the body
 * passed in has been released - the callers store the result over their only pointer. */
VERIF_HARNESS(c18_body) {
  VERIF_IN_BUF(chunk, 16);
  coap_binary_t *b, *b2;
  int i;
  ne_init();
  env_alloc_fail_enabled = 1;
  b = coap_block_build_body(NULL, 16, chunk, 0, 16);                 /* block 0, Size1 says 16 */
  if (b) {
    VERIF_ASSERT(b->length == 16 && memcmp(b->s, chunk, 16) == 0, "body: the first block is stored at offset 0");
    b2 = coap_block_build_body(b, 16, chunk, 16, 16);                /* block 1 lies beyond the announced total: the buffer must grow */
    if (b2) {
      VERIF_ASSERT(b2->length == 32, "body: the reassembly buffer grew to hold the block beyond the announced total");
      for (i = 0; i < 16; i++) VERIF_ASSERT(b2->s[i] == chunk[i] && b2->s[16 + i] == chunk[i], "body: earlier blocks survive the growth, the new block is stored at its offset");
      coap_delete_binary(b2);
    } else {
      VERIF_ASSERT(env_alloc_failed >= 1, "body: growth only fails when an allocation failed");
      /* b has been consumed by the failed call: nothing may be left allocated (memory-leak check), nothing freed twice */
    }
  } else {
    VERIF_ASSERT(env_alloc_failed >= 1, "body: the first block is only refused when an allocation failed");
  }
  env_alloc_fail_enabled = 0;
  b = coap_block_build_body(NULL, 16, chunk, 0, 16);
  VERIF_ASSERT(b != NULL, "body: with memory available reassembly starts again");
  coap_delete_binary(b);
#ifdef WITNESS
  if (env_alloc_failed >= 1) VERIF_REACH("body: an allocation failed");
#endif
}
