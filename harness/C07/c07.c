/* C07 - each request concludes exactly once; C08 - NSTART / delay queue (DESIGN 4.7, 4.8).
 * One delivery / one submission from an arbitrary valid session state, through the real coap_dispatch,
 * handle_response, coap_send_internal, coap_send_pdu, coap_session_connected, queue primitives. */
#include "common/netenv.h"
#include "common/unreach.h"

/* message types as preprocessor constants (the library's are enumerators, invisible to #if) */
#define T_CON 0
#define T_NON 1
#define T_ACK 2
#define T_RST 3
#ifndef RTYPE
#define RTYPE T_ACK                  /* type of the received message */
#endif
#ifndef RCODE
#define RCODE 0x45                   /* 2.05; 0 = empty */
#endif
#ifndef NODE
#define NODE 1                       /* 0 none, 1 queued request with the same mid and token, 2 same token other mid, 3 other token+mid */
#endif

static int
tx_is(int i, coap_pdu_type_t type, uint8_t code, uint16_t mid) {
  return i < ne_tx_count && ne_tx_len[i] >= 4 &&
         ((ne_tx_first[i][0] >> 4) & 3) == type && ne_tx_first[i][1] == code &&
         ne_tx_first[i][2] == (uint8_t)(mid >> 8) && ne_tx_first[i][3] == (uint8_t)mid;
}

/* GnuTLS side (not linked) */
unsigned int coap_dtls_get_overhead(coap_session_t *session) { (void)session; return 29; }

/* ---- C07-S1: one response delivery ------------------------------------------------------------------------- */
VERIF_HARNESS(c07_s1_response) {
  ne_init();
  VERIF_IN(uint16_t, mid);
  VERIF_IN(uint16_t, req_mid_other);
  VERIF_IN_BUF(tok, 4);
  VERIF_IN_BUF(tok2, 4);
  VERIF_IN(int32_t, last_con_mid);
  VERIF_IN(int32_t, last_ack_mid);
  VERIF_IN(uint8_t, last_res);
  VERIF_IN(uint8_t, verdict);
  VERIF_IN(uint64_t, now);
  VERIF_ASSUME(last_con_mid >= -1 && last_con_mid <= 0xffff && last_ack_mid >= -1 && last_ack_mid <= 0xffff);
  VERIF_ASSUME(last_res <= 1 && verdict <= 1);
  VERIF_ASSUME(now < (1ull << 50));
  VERIF_ASSUME(req_mid_other != mid);
  VERIF_ASSUME(tok2[0] != tok[0]);
  env_now = now;
  ne_ctx.sendqueue_basetime = now;
  ne_sess.last_con_mid = last_con_mid;
  ne_sess.last_ack_mid = last_ack_mid;
  ne_sess.last_con_handler_res = last_res ? COAP_RESPONSE_OK : COAP_RESPONSE_FAIL;
  ne_resp_verdict = verdict ? COAP_RESPONSE_OK : COAP_RESPONSE_FAIL;
  coap_queue_t *node = NULL;
#if NODE == 1
  node = ne_make_node(&ne_sess, ne_make_pdu(COAP_MESSAGE_CON, 1, mid, tok, 4), 2000, 0);
#elif NODE == 2
  node = ne_make_node(&ne_sess, ne_make_pdu(COAP_MESSAGE_CON, 1, req_mid_other, tok, 4), 2000, 1);
#elif NODE == 3
  node = ne_make_node(&ne_sess, ne_make_pdu(COAP_MESSAGE_CON, 1, req_mid_other, tok2, 4), 2000, 0);
#elif NODE == 4
  /* an unrelated request of ours whose message id happens to EQUAL the id the peer chose for its message (the two endpoints number
   * their messages independently), with another token */
  node = ne_make_node(&ne_sess, ne_make_pdu(COAP_MESSAGE_CON, 1, mid, tok2, 4), 2000, 0);
#endif
  if (node) {
    node->t = 2000;
    ne_ctx.sendqueue = node;
    ne_sess.con_active = 1;
  }
#ifdef PING_NODE
  /* the queued Confirmable is the session's keep-alive ping: a Reset is the expected "pong" */
  ne_ctx.ping_timeout = 30;
  ne_sess.last_ping = 5;
  ne_sess.last_ping_mid = mid;
#endif
  coap_pdu_t *rcvd = ne_make_pdu(RTYPE, RCODE, mid, tok, RCODE ? 4 : 0);
  int dup = (RTYPE == T_CON && (int32_t)mid == last_con_mid) || (RTYPE == T_ACK && RCODE != 0 && (int32_t)mid == last_ack_mid);
  coap_dispatch(&ne_ctx, &ne_sess, rcvd);
#if RCODE != 0
  /* a response */
  VERIF_ASSERT(ne_resp_count == (dup ? 0 : 1), "S1 response handler runs exactly once per new response and not for a duplicate");
  if (!dup) {
    VERIF_ASSERT(ne_resp_tkl == 4 && memcmp(ne_resp_token, tok, 4) == 0 && ne_resp_mid == mid, "S1 handler sees the response's token and mid");
  }
  VERIF_ASSERT(ne_nack_count == 0, "S1 a response never also produces a NACK");
#if RTYPE == T_CON
  {
    int ok = dup ? last_res : verdict;
    VERIF_ASSERT(ne_tx_count == 1, "S1 every Confirmable response is answered by exactly one datagram (also a duplicate)");
    VERIF_ASSERT(tx_is(0, ok ? COAP_MESSAGE_ACK : COAP_MESSAGE_RST, 0, mid) && ne_tx_len[0] == 4, "S1 that datagram is an empty ACK, or a Reset when the handler verdict was FAIL");
  }
#elif RTYPE == T_NON
  if (dup || verdict) VERIF_ASSERT(ne_tx_count == 0, "S1 a Non-confirmable response is not acknowledged");
  else VERIF_ASSERT(ne_tx_count == 1 && tx_is(0, COAP_MESSAGE_RST, 0, mid), "S1 handler verdict FAIL on a NON response produces one Reset");
#else
  VERIF_ASSERT(ne_tx_count == 0, "S1 a piggybacked response is not acknowledged");
#endif
  /* the request this response belongs to is not retransmitted again */
#if NODE == 1
  VERIF_ASSERT(!ne_in_queue(ne_ctx.sendqueue, node), "S1 request with the response's mid/token leaves the retransmission queue");
#elif NODE == 2
#if RTYPE != T_ACK
  VERIF_ASSERT(ne_ctx.sendqueue == NULL, "S1 separate response cancels the still-queued request with the same token (lost ACK)");
#else
  VERIF_ASSERT(ne_in_queue(ne_ctx.sendqueue, node), "S1 an ACK with another mid does not cancel the request");
#endif
#elif NODE == 3
  VERIF_ASSERT(ne_in_queue(ne_ctx.sendqueue, node) && ne_deadline(node) == now + 2000, "S1 an unrelated queued request is untouched");
#elif NODE == 4
#if RTYPE == T_ACK
  /* an ACK does refer to OUR message id: a piggybacked response with a foreign token still acknowledges the message */
  VERIF_ASSERT(!ne_in_queue(ne_ctx.sendqueue, node), "S1 an ACK with the request's message id stops its retransmission");
#else
  VERIF_ASSERT(ne_in_queue(ne_ctx.sendqueue, node) && ne_deadline(node) == now + 2000 && ne_sess.con_active == 1,
               "S1 a CON/NON message from the peer never stops an unrelated request of ours that merely has the same message id (own id space, other token)");
#endif
#endif
#else
  /* empty ACK / RST */
  VERIF_ASSERT(ne_resp_count == 0, "S1 empty ACK/RST never reaches the response handler");
  VERIF_ASSERT(ne_tx_count == 0, "S1 nothing is sent in reply to an empty ACK/RST");
#if NODE == 1
  VERIF_ASSERT(!ne_in_queue(ne_ctx.sendqueue, node), "S1 ACK/RST with the request's mid stops its retransmission");
#if RTYPE == T_RST && defined(PING_NODE)
  VERIF_ASSERT(ne_nack_count == 0 && ne_pong_count == 1, "S1 a Reset answering the keep-alive ping is a pong: pong handler once, no NACK");
#elif RTYPE == T_RST
  VERIF_ASSERT(ne_nack_count == 1 && ne_nack_reason == COAP_NACK_RST && ne_nack_mid == mid, "S1 exactly one NACK(RST) for a reset Confirmable");
#else
  VERIF_ASSERT(ne_nack_count == 0, "S1 an ACK completes the message silently");
#endif
  VERIF_ASSERT(ne_sess.con_active == 0, "S1 completion frees the NSTART slot");
#elif NODE == 2 || NODE == 3
  VERIF_ASSERT(ne_in_queue(ne_ctx.sendqueue, node) && ne_deadline(node) == now + 2000, "S1 ACK/RST with another mid leaves the queued request alone");
  VERIF_ASSERT(ne_sess.con_active == 1, "S8 an ACK/RST that matches no message in flight does not free an NSTART slot");
#endif
#endif
  VERIF_REACH("S1 end");
}

/* ---- C07-S2: the same datagram delivered twice ----------------------------------------------------------------- */
VERIF_HARNESS(c07_s2_twice) {
  ne_init();
  VERIF_IN(uint16_t, mid);
  VERIF_IN_BUF(tok, 4);
  VERIF_IN(uint8_t, verdict);
  VERIF_ASSUME(verdict <= 1);
  ne_sess.last_con_mid = COAP_INVALID_MID;
  ne_sess.last_ack_mid = COAP_INVALID_MID;
  ne_resp_verdict = verdict ? COAP_RESPONSE_OK : COAP_RESPONSE_FAIL;
  coap_pdu_t *r1 = ne_make_pdu(RTYPE, 0x45, mid, tok, 4);
  coap_pdu_t *r2 = ne_make_pdu(RTYPE, 0x45, mid, tok, 4);
  coap_dispatch(&ne_ctx, &ne_sess, r1);
  coap_dispatch(&ne_ctx, &ne_sess, r2);
#if RTYPE == T_NON
  VERIF_ASSERT(ne_resp_count == 2, "S2 a Non-confirmable message is delivered once per datagram received");
#else
  VERIF_ASSERT(ne_resp_count == 1, "S2 a duplicated CON/ACK response is delivered once");
#endif
#if RTYPE == T_CON
  VERIF_ASSERT(ne_tx_count == 2 && tx_is(0, verdict ? COAP_MESSAGE_ACK : COAP_MESSAGE_RST, 0, mid) && tx_is(1, verdict ? COAP_MESSAGE_ACK : COAP_MESSAGE_RST, 0, mid),
               "S2 the duplicate Confirmable response is acknowledged again, with the same verdict");
#endif
  VERIF_REACH("S2 end");
}

/* ---- C08-S1: submission through coap_send_internal from an arbitrary NSTART state ------------------------------ */
#ifndef STYPE
#define STYPE T_CON
#endif
#ifndef DELAYED
#define DELAYED 0        /* messages already held in the delay queue */
#endif
VERIF_HARNESS(c08_s1_submit) {
  ne_init();
  VERIF_IN(uint16_t, mid);
  VERIF_IN_BUF(tok, 4);
  VERIF_IN(uint8_t, nstart);
  VERIF_IN(uint8_t, con_active);
  VERIF_IN(uint8_t, established);
  VERIF_IN(uint64_t, now);
  VERIF_ASSUME(nstart >= 1 && nstart <= 4 && con_active <= nstart && established <= 1 && now < (1ull << 50));
  env_now = now;
  ne_ctx.sendqueue_basetime = now;
  ne_sess.nstart = nstart;
  ne_sess.con_active = con_active;
#ifdef SPROTO
  ne_sess.proto = (coap_proto_t)SPROTO;      /* C19: DTLS session, handshake not finished */
  ne_sess.state = established ? COAP_SESSION_STATE_ESTABLISHED : COAP_SESSION_STATE_HANDSHAKE;
#else
  ne_sess.state = established ? COAP_SESSION_STATE_ESTABLISHED : COAP_SESSION_STATE_CONNECTING;
#endif
  coap_queue_t *held = NULL;
#if DELAYED
  /* representation invariant: something is held only if the session is not up or all NSTART slots are taken */
  VERIF_ASSUME(!established || con_active == nstart);
  held = coap_new_node();
  held->pdu = ne_make_pdu(COAP_MESSAGE_CON, 1, (uint16_t)(mid + 1), tok, 4);
  held->id = held->pdu->mid;
  ne_sess.delayqueue = held;
#endif
  coap_pdu_t *pdu = coap_pdu_init(STYPE, 1, mid, 256);
  coap_add_token(pdu, 4, tok);
  coap_mid_t r = coap_send_internal(&ne_sess, pdu);
  int blocked = !established || (STYPE == T_CON && con_active >= nstart);
  if (blocked) {
    VERIF_ASSERT(ne_tx_count == 0, "C08 nothing is transmitted while the session is not established or NSTART Confirmables are in flight");
    coap_queue_t *q = ne_sess.delayqueue;
    VERIF_ASSERT(q != NULL, "C08 the message is held");
    if (q) {
      if (held) { VERIF_ASSERT(q == held && q->next && q->next->pdu == pdu && q->next->next == NULL, "C08 held messages keep submission order (append at the tail)"); }
      else VERIF_ASSERT(q->pdu == pdu && q->next == NULL, "C08 the message is the only held one");
    }
    VERIF_ASSERT(ne_sess.con_active == con_active, "C08 holding a message does not change the in-flight count");
    VERIF_ASSERT(r == mid, "C08 the message id is reported for a held message");
  } else {
    VERIF_ASSERT(ne_tx_count == 1 && tx_is(0, STYPE, 1, mid) && ne_tx_sess[0] == &ne_sess, "C08 an admissible message is transmitted at once, exactly once");
#if STYPE == T_CON
    VERIF_ASSERT(ne_sess.con_active == con_active + 1 && ne_sess.con_active <= nstart, "C08 in-flight Confirmables never exceed NSTART");
    VERIF_ASSERT(ne_ctx.sendqueue && ne_ctx.sendqueue->pdu == pdu && ne_ctx.sendqueue->retransmit_cnt == 0, "C06 the Confirmable is queued for retransmission");
    VERIF_ASSERT(ne_deadline(ne_ctx.sendqueue) == now + ne_ctx.sendqueue->timeout, "C06 first retransmission is due after the initial timeout T");
    {
      uint32_t t = ne_ctx.sendqueue->timeout;
      VERIF_ASSERT(t >= 1999 && t <= 3001, "C06 T lies in [ACK_TIMEOUT, ACK_TIMEOUT x ACK_RANDOM_FACTOR] for the default parameters");
    }
#else
    VERIF_ASSERT(ne_sess.con_active == con_active && ne_ctx.sendqueue == NULL, "C08 a Non-confirmable neither occupies an NSTART slot nor is queued");
#endif
  }
#ifdef WITNESS
#ifdef WIT_BLOCKED
  if (blocked) VERIF_REACH("C08 blocked submission");
#else
  if (!blocked) VERIF_REACH("C08 immediate submission");
#endif
#endif
}

/* ---- C08-S2: coap_session_connected drains the delay queue in order up to NSTART -------------------------------- */
#ifndef HELD
#define HELD 2
#endif
VERIF_HARNESS(c08_s2_drain) {
  ne_init();
  VERIF_IN(uint16_t, mid);
  VERIF_IN_BUF(tok, 4);
  VERIF_IN(uint8_t, nstart);
  VERIF_IN(uint8_t, con_active);
  VERIF_IN(uint8_t, types);     /* bit i: held message i is NON */
  VERIF_IN(uint64_t, now);
  VERIF_ASSUME(nstart >= 1 && nstart <= 4 && con_active <= nstart && now < (1ull << 50));
  env_now = now;
  ne_ctx.sendqueue_basetime = now;
  ne_sess.nstart = nstart;
  ne_sess.con_active = con_active;
#ifdef DPROTO
  ne_sess.proto = (coap_proto_t)DPROTO;      /* C19: the handshake has just completed */
  ne_sess.state = COAP_SESSION_STATE_HANDSHAKE;
  ne_sess.mtu = 1152;
#endif
  coap_queue_t *h[3] = {0, 0, 0};
  int i;
  for (i = 0; i < HELD; i++) {
    h[i] = coap_new_node();
    h[i]->pdu = ne_make_pdu((types >> i) & 1 ? COAP_MESSAGE_NON : COAP_MESSAGE_CON, 1, (uint16_t)(mid + i), tok, 4);
    h[i]->id = h[i]->pdu->mid;
    h[i]->timeout = 2000 + i;
    if (i) h[i - 1]->next = h[i];
  }
  ne_sess.delayqueue = h[0];
  coap_session_connected(&ne_sess);
  /* expected: send from the head while the head is NON or a slot is free */
  int sent = 0, ca = con_active;
  for (i = 0; i < HELD; i++) {
    int non = (types >> i) & 1;
    if (!non && ca >= nstart) break;
    if (!non) ca++;
    sent++;
  }
  VERIF_ASSERT(ne_tx_count == sent, "C08 held messages are sent from the head until a Confirmable meets a full NSTART window");
  for (i = 0; i < HELD; i++)
    if (i < sent) VERIF_ASSERT(tx_is(i, (types >> i) & 1 ? COAP_MESSAGE_NON : COAP_MESSAGE_CON, 1, (uint16_t)(mid + i)), "C08 held messages go out in submission order, each once");
  VERIF_ASSERT(ne_sess.con_active == ca && ca <= nstart, "C08 in-flight count follows the Confirmables sent and never exceeds NSTART");
  VERIF_ASSERT(ne_sess.delayqueue == (sent < HELD ? h[sent] : NULL), "C08 the rest stays held, in order");
  for (i = 0; i < HELD; i++)
    if (i < sent && !((types >> i) & 1)) VERIF_ASSERT(ne_in_queue(ne_ctx.sendqueue, h[i]) && ne_deadline(h[i]) == now + h[i]->timeout, "C08 a released Confirmable is queued for retransmission with its own timeout");
#ifdef WITNESS
  if (sent == 1 && HELD >= 2) VERIF_REACH("C08 partial drain");
  if (HELD < 2) VERIF_REACH("C08 drain end");
#endif
}

/* ---- C08-S4 / C19-S3 / C06-S6: session failure: every message still owned by the session is reported once ------------ */
#ifndef NHELD
#define NHELD 2
#endif
#ifndef INFLIGHT
#define INFLIGHT 0
#endif
#ifndef FPROTO
#define FPROTO 2          /* COAP_PROTO_DTLS */
#endif
static int close_calls;
static void ne_l_close(coap_session_t *s) { (void)s; close_calls++; }
VERIF_HARNESS(c08_s4_session_failure) {
  ne_init();
  VERIF_IN(uint16_t, mid);
  VERIF_IN_BUF(tok, 4);
  VERIF_IN(uint8_t, types);     /* bit i: held message i is NON */
  VERIF_IN(uint8_t, reason_sel);
  VERIF_ASSUME(reason_sel <= 1);
  coap_nack_reason_t reason = reason_sel ? COAP_NACK_TLS_FAILED : COAP_NACK_NOT_DELIVERABLE;
  ne_sess.proto = (coap_proto_t)FPROTO;
  ne_sess.state = INFLIGHT ? COAP_SESSION_STATE_ESTABLISHED : COAP_SESSION_STATE_HANDSHAKE;
  ne_sess.sock.lfunc[COAP_LAYER_SESSION].l_close = ne_l_close;
  coap_queue_t *h[3] = {0, 0, 0};
  int i, cons = 0;
  for (i = 0; i < NHELD; i++) {
    int non = (types >> i) & 1;
    h[i] = coap_new_node();
    h[i]->pdu = ne_make_pdu(non ? COAP_MESSAGE_NON : COAP_MESSAGE_CON, 1, (uint16_t)(mid + i), tok, 4);
    h[i]->id = h[i]->pdu->mid;
    if (i) h[i - 1]->next = h[i];
    if (!non) cons++;
  }
  ne_sess.delayqueue = h[0];
#if INFLIGHT
  {
    coap_queue_t *n = ne_make_node(&ne_sess, ne_make_pdu(COAP_MESSAGE_CON, 1, (uint16_t)(mid + 7), tok, 4), 2000, 1);
    n->t = 2000;
    ne_ctx.sendqueue = n;
    ne_sess.con_active = 1;
    cons++;
  }
#endif
  close_calls = 0;
  coap_session_disconnected_lkd(&ne_sess, reason);
  VERIF_ASSERT(ne_tx_count == 0, "failure: nothing the application queued is transmitted (no cleartext on a failed (D)TLS session)");
  VERIF_ASSERT(ne_sess.delayqueue == NULL && ne_ctx.sendqueue == NULL, "failure: no message of the session stays queued");
  VERIF_ASSERT(ne_sess.con_active == 0, "failure: in-flight count reset");
  if (cons > 0) VERIF_ASSERT(ne_nack_count == cons && ne_nack_reason == reason, "failure: each Confirmable owned by the session is reported by exactly one NACK with the failure reason; Non-confirmables by none");
  else VERIF_ASSERT(ne_nack_count == 1 && ne_nack_pdu == NULL, "failure: with no Confirmable pending a single anonymous NACK reports the failure");
  VERIF_ASSERT(close_calls == 1, "failure: the transport is closed once");
#ifdef WITNESS
  if (cons == NHELD + INFLIGHT && NHELD > 0) VERIF_REACH("failure with only Confirmables");
  if (NHELD == 0) VERIF_REACH("failure end");
#endif
}

/* ---- C08-S5: an exchange ended by token (separate response after a lost ACK, observe cancel: coap_cancel_all_messages) frees its
 * NSTART slot and the oldest held Confirmable takes it - for every NSTART, not only 1. Two Confirmables in flight (tokens A, B), one held. */
VERIF_HARNESS(c08_s5_cancel_by_token) {
  ne_init();
  VERIF_IN(uint16_t, mid);
  /* tokens concrete: which queue entries a token selects is pointer-valued control flow (symbolic tokens: no verdict in 900 s) */
  static const uint8_t tokA[4] = {0xA1, 2, 3, 4}, tokB[4] = {0xB1, 2, 3, 4};
#ifndef NSTART_C
#define NSTART_C 2
#endif
  const uint8_t nstart = NSTART_C;       /* concrete per job: it decides the shape of the queues */
  VERIF_IN(uint64_t, now);
  VERIF_ASSUME(now < (1ull << 50));
  env_now = now;
  ne_ctx.sendqueue_basetime = now;
  ne_sess.nstart = nstart;
  coap_queue_t *a = ne_make_node(&ne_sess, ne_make_pdu(COAP_MESSAGE_CON, 1, mid, tokA, 4), 2000, 0);
  coap_queue_t *b = ne_make_node(&ne_sess, ne_make_pdu(COAP_MESSAGE_CON, 1, (uint16_t)(mid + 1), tokB, 4), 2000, 0);
  a->t = 2000; b->t = 10;
  a->next = b;
  ne_ctx.sendqueue = a;
  ne_sess.con_active = 2;
  coap_queue_t *h = coap_new_node();
  h->pdu = ne_make_pdu(COAP_MESSAGE_CON, 1, (uint16_t)(mid + 2), tokB, 4);
  h->id = h->pdu->mid;
  h->timeout = 2000;
  /* a message is only held while the window is full: with NSTART 3 a third Confirmable would not have been held */
  if (nstart == 2) ne_sess.delayqueue = h;
  coap_bin_const_t t = {4, tokA};
  coap_cancel_all_messages(&ne_ctx, &ne_sess, &t);
  VERIF_ASSERT(!ne_in_queue(ne_ctx.sendqueue, a) && ne_in_queue(ne_ctx.sendqueue, b), "S5 exactly the exchange with that token is cancelled");
  if (nstart == 2) {
    VERIF_ASSERT(ne_tx_count == 1 && tx_is(0, COAP_MESSAGE_CON, 1, (uint16_t)(mid + 2)), "S5 the freed NSTART slot goes to the oldest held Confirmable at once (it is not overtaken by later submissions)");
    VERIF_ASSERT(ne_sess.delayqueue == NULL && ne_in_queue(ne_ctx.sendqueue, h) && ne_sess.con_active == 2, "S5 the released message is in flight, the window is full again");
  } else {
    VERIF_ASSERT(ne_tx_count == 0 && ne_sess.con_active == 1, "S5 the slot is free and nothing was waiting");
  }
  VERIF_REACH("S5 end");
}
