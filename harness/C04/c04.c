/* C04 - in-place edits change only what they name (DESIGN 4.4).
 * One edit from a start message of concrete layout (enumerated catalogue) with every token/value/payload byte symbolic.
 * Start forms: BUILT through the API (256-byte allocation, headroom) and PARSED from the wire (allocation is exactly the
 * message, so every growing edit forces coap_pdu_resize/realloc). */
#include "coap3/coap_libcoap_build.h"
#include "common/verif.h"
#include "common/pdu_model.h"
#include "ref/ref_codec.h"
#include <stdlib.h>

#ifndef K
#define K 1
#endif
#ifndef BN1
#define BN1 11
#define BL1 1
#endif
#ifndef BN2
#define BN2 0
#define BL2 0
#endif
#ifndef BN3
#define BN3 0
#define BL3 0
#endif
#ifndef PL
#define PL 0
#endif
#ifndef TKL
#define TKL 0
#endif
#ifndef FORM
#define FORM 0
#endif
#ifndef EDIT
#define EDIT 1
#endif
#ifndef EN
#define EN 0
#endif
#ifndef EL
#define EL 0
#endif
#ifndef MAXSIZE
#define MAXSIZE 0      /* 0 = variable size PDU */
#endif
#define E_INSERT 1
#define E_UPDATE 2
#define E_REMOVE 3
#define E_TOKEN 4

VERIF_HARNESS(c04_edit) {
  /* concrete code (symex does not learn from assumptions: a symbolic code makes coap_pdu_parse_opt's "empty
   * message" branch feasible and with it every length field symbolic); 2.05 unless the job says otherwise */
#ifndef CODE
#define CODE 0x45
#endif
  const uint8_t code = CODE;
  VERIF_IN(uint16_t, mid);
#if TKL > 0
  VERIF_IN_BUF(tok, TKL);
#else
  uint8_t tok[1] = {0};
#endif
  VERIF_IN_BUF(v1, BL1 + 1);
  VERIF_IN_BUF(v2, BL2 + 1);
  VERIF_IN_BUF(v3, BL3 + 1);
  VERIF_IN_BUF(pl, PL + 1);
  VERIF_IN_BUF(ev, EL + 1);
  static model_t m;
  m.n = 0; m.tkl = TKL; m.tok = tok; m.plen = PL; m.pl = pl;
  coap_pdu_t *pdu = coap_pdu_init(COAP_MESSAGE_NON, code, mid, MAXSIZE ? MAXSIZE : 1152);
  if (!MAXSIZE) pdu->max_size = 0;
  VERIF_ASSERT(coap_add_token(pdu, TKL, tok) == 1, "start: token");
#if K >= 1
  VERIF_ASSERT(coap_add_option(pdu, BN1, BL1, v1) != 0, "start: option 1"); model_insert(&m, BN1, BL1, v1);
#endif
#if K >= 2
  VERIF_ASSERT(coap_add_option(pdu, BN2, BL2, v2) != 0, "start: option 2"); model_insert(&m, BN2, BL2, v2);
#endif
#if K >= 3
  VERIF_ASSERT(coap_add_option(pdu, BN3, BL3, v3) != 0, "start: option 3"); model_insert(&m, BN3, BL3, v3);
#endif
  VERIF_ASSERT(coap_add_data(pdu, PL, pl) == 1, "start: payload");
#if FORM == 1
  {
    /* the state a received message is in: serialise, then parse in place (coap_pdu_parse skips its copy when the
     * data already sits in the PDU buffer): allocation is exactly the message, fields re-derived by the parser */
    size_t hs = coap_pdu_encode_header(pdu, COAP_PROTO_UDP);
    size_t wn = hs + pdu->used_size;
    VERIF_ASSERT(coap_pdu_parse(COAP_PROTO_UDP, pdu->token - hs, wn, pdu) == 1, "start: parse");
    VERIF_ASSERT(pdu->alloc_size == pdu->used_size, "start: parsed message has no headroom");
  }
#endif
  size_t alloc_before = pdu->alloc_size;
  size_t r;
#if EDIT == E_INSERT
  {
    int pos = model_find(&m, EN);
    int refuse = pos >= 0 && !coap_option_check_repeatable(EN);
    r = coap_insert_option(pdu, EN, EL, ev);
    VERIF_ASSERT(r != 0 || refuse, "insert: accepted unless it illegally repeats a non-repeatable option (then: unchanged)");
    if (r) model_insert(&m, EN, EL, ev);
  }
#elif EDIT == E_UPDATE
  {
    int pos = model_find(&m, EN);
    r = coap_update_option(pdu, EN, EL, ev);
    VERIF_ASSERT(r != 0, "update: succeeds");
    if (pos >= 0) { m.o[pos].len = EL; m.o[pos].val = ev; }   /* first occurrence replaced in place */
    else model_insert(&m, EN, EL, ev);                          /* absent: behaves as insert */
  }
#elif EDIT == E_REMOVE
  {
    int pos = model_find(&m, EN);
    r = (size_t)coap_remove_option(pdu, EN);
    VERIF_ASSERT((r != 0) == (pos >= 0), "remove: reports whether the option was present");
    if (pos >= 0) model_remove_at(&m, (unsigned)pos);             /* first occurrence only */
  }
#elif EDIT == E_TOKEN
  {
    r = (size_t)coap_update_token(pdu, EL, ev);
    VERIF_ASSERT(r == 1, "token: replacement accepted");
    m.tkl = EL; m.tok = ev;
  }
#endif
  model_check_pdu(pdu, &m);
  (void)alloc_before;
  /* the result serialises and re-parses to the model */
  {
    size_t hs = coap_pdu_encode_header(pdu, COAP_PROTO_UDP);
    VERIF_ASSERT(hs == 4, "after: header encodes");
    size_t wn = hs + pdu->used_size;
    static ref_msg_t rm;
    int rok = ref_decode(REF_UDP, pdu->token - hs, wn, &rm);
    VERIF_ASSERT(rok, "after: serialisation is well-formed for the reference decoder");
    if (rok) {
      unsigned i;
      VERIF_ASSERT(rm.tkl == m.tkl && rm.nopts == m.n && rm.payload_len == m.plen && rm.code == code && rm.mid == mid,
                   "after: reference decoding has the model's shape");
      for (i = 0; i < m.n && i < REF_MAX_OPTS; i++)
        VERIF_ASSERT(rm.opts[i].number == m.o[i].num && rm.opts[i].length == m.o[i].len, "after: reference decoding has the model's options");
    }
#ifdef REPARSE
    {
      uint8_t *copy = malloc(wn);
      __CPROVER_assume(copy != NULL);
      memcpy(copy, pdu->token - hs, wn);
      coap_pdu_t *q = coap_pdu_init(0, 0, 0, 70000);
      VERIF_ASSERT(coap_pdu_parse(COAP_PROTO_UDP, copy, wn, q) == 1, "after: re-parse succeeds");
      model_check_pdu(q, &m);
    }
#endif
  }
  VERIF_REACH("c04_edit end");
}
