/* C16 - URI text <-> options (DESIGN 4.16). All inputs are exact-size heap objects (no terminator). */
#include "coap3/coap_libcoap_build.h"
#include "common/verif.h"
#include <stdlib.h>
#include <ctype.h>

int __CPROVER_file_local_coap_uri_c_dots(const uint8_t *s, size_t len);
int __CPROVER_file_local_coap_uri_c_check_segment(const uint8_t *s, size_t length, size_t *segment_size);

#ifndef N
#define N 3
#endif

static uint8_t *
exact(const uint8_t *src, size_t n) {
  uint8_t *p = malloc(n ? n : 1);
  __CPROVER_assume(p != NULL);
  if (n) memcpy(p, src, n);
  return p;
}

/* ---- reference (RFC 3986 2.1, 5.2.4; RFC 7252 6.4) ---------------------------------------------------------------- */
static int
ref_hex(uint8_t c) {
  if (c >= '0' && c <= '9') return c - '0';
  if (c >= 'a' && c <= 'f') return c - 'a' + 10;
  if (c >= 'A' && c <= 'F') return c - 'A' + 10;
  return -1;
}
/* decode one segment once; returns decoded length or -1 for a malformed escape */
static int
ref_decode_seg(const uint8_t *s, size_t n, uint8_t *out) {
  size_t i = 0;
  int o = 0;
  while (i < n) {
    if (s[i] == '%') {
      if (i + 2 >= n) return -1;
      if (ref_hex(s[i + 1]) < 0 || ref_hex(s[i + 2]) < 0) return -1;
      out[o++] = (uint8_t)(ref_hex(s[i + 1]) * 16 + ref_hex(s[i + 2]));
      i += 3;
    } else out[o++] = s[i++];
  }
  return o;
}
#define RMAX 8
typedef struct { int n; int len[RMAX]; uint8_t b[RMAX][N + 1]; int malformed; } rlist_t;

static void
ref_split(const uint8_t *p, size_t n, int is_query, rlist_t *r) {
  size_t i = 0, start = 0;
  r->n = 0; r->malformed = 0;
  /* path ends at '?' or '#', query at '#' */
  size_t end = 0;
  while (end < n && !(p[end] == '#' || (!is_query && p[end] == '?'))) end++;
  for (i = 0; i <= end; i++) {
    if (i == end || p[i] == (is_query ? '&' : '/')) {
      uint8_t d[N + 1];
      int dl = ref_decode_seg(p + start, i - start, d);
      if (dl < 0) r->malformed = 1;
      else if (!is_query && dl == 1 && d[0] == '.') { /* RFC 3986 5.2.4: "." is dropped */ }
      else if (!is_query && dl == 2 && d[0] == '.' && d[1] == '.') { if (r->n) r->n--; }
      else if (r->n < RMAX) { int k; r->len[r->n] = dl; for (k = 0; k < dl; k++) r->b[r->n][k] = d[k]; r->n++; }
      start = i + 1;
    }
  }
}

/* ---- L1: dots() and check_segment() on every n-byte segment -------------------------------------------------------- */
VERIF_HARNESS(c16_l1_dots) {
#if N > 0
  VERIF_IN_BUF(in, N);
#else
  uint8_t in[1] = {0};
#endif
  uint8_t *s = exact(in, N);
  int r = __CPROVER_file_local_coap_uri_c_dots(s, N);
  uint8_t d[N + 1];
  int dl = ref_decode_seg(s, N, d);
  int exp = 0;
  /* "." / ".." written literally or as %2E / %2e (only a dot may be escaped for the segment to count as a dot-segment) */
  if (dl == 1 && d[0] == '.') exp = 1;
  if (dl == 2 && d[0] == '.' && d[1] == '.') exp = 2;
  VERIF_ASSERT(r == exp, "L1 dots(): 1 for '.', 2 for '..' (literal or %2E), 0 otherwise");
  free(s);
#ifdef WITNESS
#if N == 4 || N == 6
  if (r == 2 && s[0] == '%') VERIF_REACH("L1 percent-encoded ..");
#else
  VERIF_REACH("L1 end");
#endif
#endif
}

VERIF_HARNESS(c16_l1_check_segment) {
#if N > 0
  VERIF_IN_BUF(in, N);
#else
  uint8_t in[1] = {0};
#endif
  uint8_t *s = exact(in, N);
  size_t sz = 77;
  int r = __CPROVER_file_local_coap_uri_c_check_segment(s, N, &sz);
  uint8_t d[N + 1];
  int dl = ref_decode_seg(s, N, d);
  VERIF_ASSERT((r == 0) == (dl >= 0), "L1 check_segment accepts exactly the segments whose escapes are %HH");
  if (r == 0 && dl >= 0) VERIF_ASSERT(sz == (size_t)dl, "L1 check_segment reports the decoded length");
  free(s);
  VERIF_REACH("L1 end");
}

/* ---- B2: coap_split_path / coap_split_query on every n-byte string --------------------------------------------------- */
#ifndef QUERY
#define QUERY 0
#endif
#define CAP 40
VERIF_HARNESS(c16_b2_split) {
#if N > 0
  VERIF_IN_BUF(in, N);
#else
  uint8_t in[1] = {0};
#endif
  /* output buffer size: concrete per job (it bounds every write; a symbolic one makes each write a case split) */
#ifndef BL
#define BL (2 * N + 2)
#endif
  const unsigned bl = BL;
  uint8_t *s = exact(in, N);
  static uint8_t out[CAP];
  unsigned i;
  memset(out, VERIF_CANARY, CAP);
  size_t buflen = bl;
  int n = QUERY ? coap_split_query(s, N, out, &buflen) : coap_split_path(s, N, out, &buflen);
  /* safety for every input and every buffer size */
  VERIF_ASSERT(buflen <= bl, "B2 reported output size never exceeds the buffer");
  {
    VERIF_IN(uint8_t, ci);
    VERIF_ASSUME(ci < CAP);
    if (ci >= bl) VERIF_ASSERT(out[ci] == VERIF_CANARY, "B2 nothing is written beyond the caller's buffer");
  }
  VERIF_ASSERT(n >= 0, "B2 segment count is non-negative");
  (void)i;
#ifdef FUNCTIONAL
  {
    static rlist_t r;
    ref_split(s, N, QUERY, &r);
    /* the functional claim is for well-formed escapes and a buffer that is large enough (each segment needs 1 + len) */
    if (!r.malformed && bl >= 2 * N + 2) {
      VERIF_ASSERT(n == r.n, "B2 number of options equals the reference segment list (dot-segments resolved, never emitted)");
      size_t pos = 0;
      int k;
      for (k = 0; k < RMAX; k++)
        if (k < r.n && k < n) {
          VERIF_ASSERT(pos < buflen && (out[pos] >> 4) == 0 && (out[pos] & 15) == r.len[k], "B2 option header: delta 0, decoded length");
          int j;
          for (j = 0; j < N; j++)
            if (j < r.len[k]) VERIF_ASSERT(out[pos + 1 + j] == r.b[k][j], "B2 option value is the segment percent-decoded exactly once");
          pos += 1 + (size_t)r.len[k];
        }
      VERIF_ASSERT(pos == buflen, "B2 reported output size is exact");
    }
  }
#endif
  free(s);
#ifdef WITNESS
#if N >= 4 && defined(FUNCTIONAL)
  if (n == 2) VERIF_REACH("B2 two segments");
#else
  VERIF_REACH("B2 end");
#endif
#endif
}

/* ---- B3: options -> string (coap_get_uri_path / coap_get_query): exact allocation, left inverse (injectivity) --------- */
#ifndef L1
#define L1 1
#endif
#ifndef L2
#define L2 1
#endif
#ifndef NSEG
#define NSEG 2
#endif
#define ACAP 64
static uint8_t arena0[ACAP], arena1[ACAP];
static size_t areq[2];
static int acnt;
/* capacity allocator: the requested size depends on symbolic content; every block has ACAP bytes filled with a
 * canary, so a write beyond the *requested* size is detected without a symbolic-size object (1-D arrays: CBMC
 * mishandles rows of 2-D arrays) */
void *
coap_malloc_type(coap_memory_tag_t type, size_t size) {
  (void)type;
  __CPROVER_assume(size <= ACAP);
  VERIF_ASSERT(acnt < 2, "B3 allocator arena");
  areq[acnt] = size;
  uint8_t *blk = acnt == 0 ? arena0 : arena1;
  memset(blk, VERIF_CANARY, ACAP);
  acnt++;
  return blk;
}
void coap_free_type(coap_memory_tag_t type, void *p) { (void)type; (void)p; }
void *coap_realloc_type(coap_memory_tag_t type, void *p, size_t size) { (void)type; (void)p; (void)size; return NULL; }

VERIF_HARNESS(c16_b3_get) {
  VERIF_IN_BUF(v1, L1 + 1);
  VERIF_IN_BUF(v2, L2 + 1);
  /* the request as a directly written, concrete-layout PDU: token empty, NSEG options of number 11 (Uri-Path) or 15 */
  static uint8_t pbuf[32];
  static coap_pdu_t pdu;
  unsigned pos = 8, i;
  memset(&pdu, 0, sizeof(pdu));
  pdu.token = pbuf + 8;
#if QUERY
  pbuf[pos++] = (uint8_t)(0xD0 | L1);   /* option 15 = delta 13 + extension byte 2 */
  pbuf[pos++] = 2;
#else
  pbuf[pos++] = (uint8_t)((11 << 4) | L1);
#endif
  for (i = 0; i < L1; i++) pbuf[pos++] = v1[i];
#if NSEG >= 2
  pbuf[pos++] = (uint8_t)(0x00 | L2);
  for (i = 0; i < L2; i++) pbuf[pos++] = v2[i];
#endif
  pdu.used_size = pdu.alloc_size = pos - 8;
  pdu.max_opt = QUERY ? 15 : 11;
  pdu.code = 1;
  acnt = 0;
  coap_string_t *str = QUERY ? coap_get_query(&pdu) : coap_get_uri_path(&pdu);
  if (!str) {
    /* only the all-empty query yields NULL */
    VERIF_ASSERT(QUERY && L1 == 0 && (NSEG < 2 || L2 == 0) && NSEG < 2, "B3 a string is produced");
    VERIF_REACH("B3 end (empty query)");
    return;
  }
  /* exact allocation: header + length + 1, nothing written beyond it */
  {
    size_t req = areq[0];
    VERIF_ASSERT(req == sizeof(coap_string_t) + str->length + 1, "B3 allocation is exactly the reported length (+ terminator)");
    {
      VERIF_IN(uint8_t, ci);
      VERIF_ASSUME(ci < ACAP);
      if (ci >= req) VERIF_ASSERT(arena0[ci] == VERIF_CANARY, "B3 nothing is written beyond the allocated string");
    }
  }
  /* left inverse: the reference splitter applied to the string gives back exactly the option values */
  {
    static rlist_t r;
    /* string is at most 3*(L1+L2)+1 bytes; the reference handles up to N */
    VERIF_ASSERT(str->length <= N, "B3 string length within the reference bound");
    ref_split(str->s, str->length, QUERY, &r);
    VERIF_ASSERT(!r.malformed, "B3 the produced string has well-formed escapes");
    int dot1 = !QUERY && ((L1 == 1 && v1[0] == '.') || (L1 == 2 && v1[0] == '.' && v1[1] == '.'));
    int dot2 = !QUERY && NSEG >= 2 && ((L2 == 1 && v2[0] == '.') || (L2 == 2 && v2[0] == '.' && v2[1] == '.'));
    if (!dot1 && !dot2) {    /* literal dot-segment option values are outside the claim (RFC 7252 6.4 never produces them) */
      int expn = NSEG;
      if (NSEG == 1 && L1 == 0) expn = QUERY ? 1 : 1;   /* [""] and [] both give "": the stated exception */
      if (!(NSEG == 1 && L1 == 0)) {
        VERIF_ASSERT(r.n == expn, "B3 splitting the string gives back the same number of segments (injective)");
        VERIF_ASSERT(r.len[0] == L1, "B3 first segment length survives");
        for (i = 0; i < L1; i++) VERIF_ASSERT(r.b[0][i] == v1[i], "B3 first segment bytes survive (every byte value)");
#if NSEG >= 2
        VERIF_ASSERT(r.len[1] == L2, "B3 second segment length survives");
        for (i = 0; i < L2; i++) VERIF_ASSERT(r.b[1][i] == v2[i], "B3 second segment bytes survive (every byte value)");
#endif
      }
    }
  }
  VERIF_REACH("B3 end");
}

/* ---- L1: coap_replace_percents (the percent-decoding step of coap_path_into_optlist / coap_query_into_optlist / Uri-Host) --------
 * on every N-byte option value held in an EXACT-SIZE object: "%HH" is decoded exactly once, everything else - including a '%' that
 * is not followed by two more bytes - is kept literally, and no byte outside the value is read. */
static int
hexv(uint8_t c) {
  if (c >= '0' && c <= '9') return c - '0';
  if (c >= 'a' && c <= 'f') return c - 'a' + 10;
  if (c >= 'A' && c <= 'F') return c - 'A' + 10;
  return -1;
}
VERIF_HARNESS(c16_l1_replace_percents) {
#if N > 0
  VERIF_IN_BUF(in, N);
#else
  uint8_t in[1] = {0};
#endif
  uint8_t *s = exact(in, N);
  static coap_optlist_t node;
  uint8_t e[N + 1];
  size_t el = 0, i;
  int wellformed = 1;
  for (i = 0; i < N; i++) {
    if (in[i] == '%' && N - i >= 3) {
      int h = hexv(in[i + 1]), l = hexv(in[i + 2]);
      if (h < 0 || l < 0) { wellformed = 0; h = l = 0; }
      e[el++] = (uint8_t)((h << 4) + l);
      i += 2;
    } else e[el++] = in[i];
  }
  memset(&node, 0, sizeof(node));
  node.number = COAP_OPTION_URI_PATH;
  node.length = N;
  node.data = s;
  coap_replace_percents(&node);
  VERIF_ASSERT(node.length == el, "L1 replace_percents: each complete %HH escape shrinks the value by two, nothing else changes its length");
  if (wellformed) for (i = 0; i < el; i++) VERIF_ASSERT(node.data[i] == e[i], "L1 replace_percents: %HH decoded exactly once, other bytes (also an incomplete trailing escape) kept literally");
  free(s);
  VERIF_REACH("L1 end");
}
