/* C16 - URI text <-> options (DESIGN 4.16). All inputs are exact-size heap objects (no terminator). */
#include "coap3/coap_libcoap_build.h"
#include "common/verif.h"
#include <stdlib.h>
#include <ctype.h>

int __CPROVER_file_local_coap_uri_c_dots(const uint8_t *s, size_t len);
int __CPROVER_file_local_coap_uri_c_check_segment(const uint8_t *s, size_t length, size_t *segment_size);

#ifndef N
#define N 3
#endif

static uint8_t *
exact(const uint8_t *src, size_t n) {
  uint8_t *p = malloc(n ? n : 1);
  __CPROVER_assume(p != NULL);
  if (n) memcpy(p, src, n);
  return p;
}

/* ---- reference (RFC 3986 2.1, 5.2.4; RFC 7252 6.4) ---------------------------------------------------------------- */
static int
ref_hex(uint8_t c) {
  if (c >= '0' && c <= '9') return c - '0';
  if (c >= 'a' && c <= 'f') return c - 'a' + 10;
  if (c >= 'A' && c <= 'F') return c - 'A' + 10;
  return -1;
}
/* decode one segment once; returns decoded length or -1 for a malformed escape */
static int
ref_decode_seg(const uint8_t *s, size_t n, uint8_t *out) {
  size_t i = 0;
  int o = 0;
  while (i < n) {
    if (s[i] == '%') {
      if (i + 2 >= n) return -1;
      if (ref_hex(s[i + 1]) < 0 || ref_hex(s[i + 2]) < 0) return -1;
      out[o++] = (uint8_t)(ref_hex(s[i + 1]) * 16 + ref_hex(s[i + 2]));
      i += 3;
    } else out[o++] = s[i++];
  }
  return o;
}
#define RMAX 8
typedef struct { int n; int len[RMAX]; uint8_t b[RMAX][N + 1]; int malformed; } rlist_t;

static void
ref_split(const uint8_t *p, size_t n, int is_query, rlist_t *r) {
  size_t i = 0, start = 0;
  r->n = 0; r->malformed = 0;
  /* path ends at '?' or '#', query at '#' */
  size_t end = 0;
  while (end < n && !(p[end] == '#' || (!is_query && p[end] == '?'))) end++;
  for (i = 0; i <= end; i++) {
    if (i == end || p[i] == (is_query ? '&' : '/')) {
      uint8_t d[N + 1];
      int dl = ref_decode_seg(p + start, i - start, d);
      if (dl < 0) r->malformed = 1;
      else if (!is_query && dl == 1 && d[0] == '.') { /* RFC 3986 5.2.4: "." is dropped */ }
      else if (!is_query && dl == 2 && d[0] == '.' && d[1] == '.') { if (r->n) r->n--; }
      else if (r->n < RMAX) { int k; r->len[r->n] = dl; for (k = 0; k < dl; k++) r->b[r->n][k] = d[k]; r->n++; }
      start = i + 1;
    }
  }
}

/* ---- L1: dots() and check_segment() on every n-byte segment -------------------------------------------------------- */
VERIF_HARNESS(c16_l1_dots) {
#if N > 0
  VERIF_IN_BUF(in, N);
#else
  uint8_t in[1] = {0};
#endif
  uint8_t *s = exact(in, N);
  int r = __CPROVER_file_local_coap_uri_c_dots(s, N);
  uint8_t d[N + 1];
  int dl = ref_decode_seg(s, N, d);
  int exp = 0;
  /* "." / ".." written literally or as %2E / %2e (only a dot may be escaped for the segment to count as a dot-segment) */
  if (dl == 1 && d[0] == '.') exp = 1;
  if (dl == 2 && d[0] == '.' && d[1] == '.') exp = 2;
  VERIF_ASSERT(r == exp, "L1 dots(): 1 for '.', 2 for '..' (literal or %2E), 0 otherwise");
  free(s);
#ifdef WITNESS
#if N == 4 || N == 6
  if (r == 2 && s[0] == '%') VERIF_REACH("L1 percent-encoded ..");
#else
  VERIF_REACH("L1 end");
#endif
#endif
}

VERIF_HARNESS(c16_l1_check_segment) {
#if N > 0
  VERIF_IN_BUF(in, N);
#else
  uint8_t in[1] = {0};
#endif
  uint8_t *s = exact(in, N);
  size_t sz = 77;
  int r = __CPROVER_file_local_coap_uri_c_check_segment(s, N, &sz);
  uint8_t d[N + 1];
  int dl = ref_decode_seg(s, N, d);
  VERIF_ASSERT((r == 0) == (dl >= 0), "L1 check_segment accepts exactly the segments whose escapes are %HH");
  if (r == 0 && dl >= 0) VERIF_ASSERT(sz == (size_t)dl, "L1 check_segment reports the decoded length");
  free(s);
  VERIF_REACH("L1 end");
}

/* ---- B2: coap_split_path / coap_split_query on every n-byte string --------------------------------------------------- */
#ifndef QUERY
#define QUERY 0
#endif
#define CAP 40
VERIF_HARNESS(c16_b2_split) {
#if N > 0
  VERIF_IN_BUF(in, N);
#else
  uint8_t in[1] = {0};
#endif
  /* output buffer size: concrete per job (it bounds every write; a symbolic one makes each write a case split) */
#ifndef BL
#define BL (2 * N + 2)
#endif
  const unsigned bl = BL;
  uint8_t *s = exact(in, N);
  static uint8_t out[CAP];
  unsigned i;
  memset(out, VERIF_CANARY, CAP);
  size_t buflen = bl;
  int n = QUERY ? coap_split_query(s, N, out, &buflen) : coap_split_path(s, N, out, &buflen);
  /* safety for every input and every buffer size */
  VERIF_ASSERT(buflen <= bl, "B2 reported output size never exceeds the buffer");
  {
    VERIF_IN(uint8_t, ci);
    VERIF_ASSUME(ci < CAP);
    if (ci >= bl) VERIF_ASSERT(out[ci] == VERIF_CANARY, "B2 nothing is written beyond the caller's buffer");
  }
  VERIF_ASSERT(n >= 0, "B2 segment count is non-negative");
  (void)i;
#ifdef FUNCTIONAL
  {
    static rlist_t r;
    ref_split(s, N, QUERY, &r);
    /* the functional claim is for well-formed escapes and a buffer that is large enough (each segment needs 1 + len) */
    if (!r.malformed && bl >= 2 * N + 2) {
      VERIF_ASSERT(n == r.n, "B2 number of options equals the reference segment list (dot-segments resolved, never emitted)");
      size_t pos = 0;
      int k;
      for (k = 0; k < RMAX; k++)
        if (k < r.n && k < n) {
          VERIF_ASSERT(pos < buflen && (out[pos] >> 4) == 0 && (out[pos] & 15) == r.len[k], "B2 option header: delta 0, decoded length");
          int j;
          for (j = 0; j < N; j++)
            if (j < r.len[k]) VERIF_ASSERT(out[pos + 1 + j] == r.b[k][j], "B2 option value is the segment percent-decoded exactly once");
          pos += 1 + (size_t)r.len[k];
        }
      VERIF_ASSERT(pos == buflen, "B2 reported output size is exact");
    }
  }
#endif
  free(s);
#ifdef WITNESS
#if N >= 4 && defined(FUNCTIONAL)
  if (n == 2) VERIF_REACH("B2 two segments");
#else
  VERIF_REACH("B2 end");
#endif
#endif
}

/* ---- B3: options -> string (coap_get_uri_path / coap_get_query): exact allocation, left inverse (injectivity) --------- */
#ifndef L1
#define L1 1
#endif
#ifndef L2
#define L2 1
#endif
#ifndef NSEG
#define NSEG 2
#endif
#define ACAP 64
static uint8_t arena0[ACAP], arena1[ACAP];
static size_t areq[2];
static int acnt;
/* capacity allocator: the requested size depends on symbolic content; every block has ACAP bytes filled with a
 * canary, so a write beyond the *requested* size is detected without a symbolic-size object (1-D arrays: CBMC
 * mishandles rows of 2-D arrays) */
void *
coap_malloc_type(coap_memory_tag_t type, size_t size) {
  (void)type;
  __CPROVER_assume(size <= ACAP);
  VERIF_ASSERT(acnt < 2, "B3 allocator arena");
  areq[acnt] = size;
  uint8_t *blk = acnt == 0 ? arena0 : arena1;
  memset(blk, VERIF_CANARY, ACAP);
  acnt++;
  return blk;
}
void coap_free_type(coap_memory_tag_t type, void *p) { (void)type; (void)p; }
void *coap_realloc_type(coap_memory_tag_t type, void *p, size_t size) { (void)type; (void)p; (void)size; return NULL; }

VERIF_HARNESS(c16_b3_get) {
  VERIF_IN_BUF(v1, L1 + 1);
  VERIF_IN_BUF(v2, L2 + 1);
  /* the request as a directly written, concrete-layout PDU: token empty, NSEG options of number 11 (Uri-Path) or 15 */
  static uint8_t pbuf[32];
  static coap_pdu_t pdu;
  unsigned pos = 8, i;
  memset(&pdu, 0, sizeof(pdu));
  pdu.token = pbuf + 8;
#if QUERY
  pbuf[pos++] = (uint8_t)(0xD0 | L1);   /* option 15 = delta 13 + extension byte 2 */
  pbuf[pos++] = 2;
#else
  pbuf[pos++] = (uint8_t)((11 << 4) | L1);
#endif
  for (i = 0; i < L1; i++) pbuf[pos++] = v1[i];
#if NSEG >= 2
  pbuf[pos++] = (uint8_t)(0x00 | L2);
  for (i = 0; i < L2; i++) pbuf[pos++] = v2[i];
#endif
  pdu.used_size = pdu.alloc_size = pos - 8;
  pdu.max_opt = QUERY ? 15 : 11;
  pdu.code = 1;
  acnt = 0;
  coap_string_t *str = QUERY ? coap_get_query(&pdu) : coap_get_uri_path(&pdu);
  if (!str) {
    /* only the all-empty query yields NULL */
    VERIF_ASSERT(QUERY && L1 == 0 && (NSEG < 2 || L2 == 0) && NSEG < 2, "B3 a string is produced");
    VERIF_REACH("B3 end (empty query)");
    return;
  }
  /* exact allocation: header + length + 1, nothing written beyond it */
  {
    size_t req = areq[0];
    VERIF_ASSERT(req == sizeof(coap_string_t) + str->length + 1, "B3 allocation is exactly the reported length (+ terminator)");
    {
      VERIF_IN(uint8_t, ci);
      VERIF_ASSUME(ci < ACAP);
      if (ci >= req) VERIF_ASSERT(arena0[ci] == VERIF_CANARY, "B3 nothing is written beyond the allocated string");
    }
  }
  /* left inverse: the reference splitter applied to the string gives back exactly the option values */
  {
    static rlist_t r;
    /* string is at most 3*(L1+L2)+1 bytes; the reference handles up to N */
    VERIF_ASSERT(str->length <= N, "B3 string length within the reference bound");
    ref_split(str->s, str->length, QUERY, &r);
    VERIF_ASSERT(!r.malformed, "B3 the produced string has well-formed escapes");
    int dot1 = !QUERY && ((L1 == 1 && v1[0] == '.') || (L1 == 2 && v1[0] == '.' && v1[1] == '.'));
    int dot2 = !QUERY && NSEG >= 2 && ((L2 == 1 && v2[0] == '.') || (L2 == 2 && v2[0] == '.' && v2[1] == '.'));
    if (!dot1 && !dot2) {    /* literal dot-segment option values are outside the claim (RFC 7252 6.4 never produces them) */
      int expn = NSEG;
      if (NSEG == 1 && L1 == 0) expn = QUERY ? 1 : 1;   /* [""] and [] both give "": the stated exception */
      if (!(NSEG == 1 && L1 == 0)) {
        VERIF_ASSERT(r.n == expn, "B3 splitting the string gives back the same number of segments (injective)");
        VERIF_ASSERT(r.len[0] == L1, "B3 first segment length survives");
        for (i = 0; i < L1; i++) VERIF_ASSERT(r.b[0][i] == v1[i], "B3 first segment bytes survive (every byte value)");
#if NSEG >= 2
        VERIF_ASSERT(r.len[1] == L2, "B3 second segment length survives");
        for (i = 0; i < L2; i++) VERIF_ASSERT(r.b[1][i] == v2[i], "B3 second segment bytes survive (every byte value)");
#endif
      }
    }
  }
  VERIF_REACH("B3 end");
}

/* ---- L1: coap_replace_percents (the percent-decoding step of coap_path_into_optlist / coap_query_into_optlist / Uri-Host) --------
 * on every N-byte option value held in an EXACT-SIZE object: "%HH" is decoded exactly once, everything else - including a '%' that
 * is not followed by two more bytes - is kept literally, and no byte outside the value is read. */
static int
hexv(uint8_t c) {
  if (c >= '0' && c <= '9') return c - '0';
  if (c >= 'a' && c <= 'f') return c - 'a' + 10;
  if (c >= 'A' && c <= 'F') return c - 'A' + 10;
  return -1;
}
VERIF_HARNESS(c16_l1_replace_percents) {
#if N > 0
  VERIF_IN_BUF(in, N);
#else
  uint8_t in[1] = {0};
#endif
  uint8_t *s = exact(in, N);
  static coap_optlist_t node;
  uint8_t e[N + 1];
  size_t el = 0, i;
  int wellformed = 1;
  for (i = 0; i < N; i++) {
    if (in[i] == '%' && N - i >= 3) {
      int h = hexv(in[i + 1]), l = hexv(in[i + 2]);
      if (h < 0 || l < 0) { wellformed = 0; h = l = 0; }
      e[el++] = (uint8_t)((h << 4) + l);
      i += 2;
    } else e[el++] = in[i];
  }
  memset(&node, 0, sizeof(node));
  node.number = COAP_OPTION_URI_PATH;
  node.length = N;
  node.data = s;
  coap_replace_percents(&node);
  VERIF_ASSERT(node.length == el, "L1 replace_percents: each complete %HH escape shrinks the value by two, nothing else changes its length");
  if (wellformed) for (i = 0; i < el; i++) VERIF_ASSERT(node.data[i] == e[i], "L1 replace_percents: %HH decoded exactly once, other bytes (also an incomplete trailing escape) kept literally");
  free(s);
  VERIF_REACH("L1 end");
}

/* ---- B1: coap_split_uri / coap_split_proxy_uri (scheme, host incl. IPv6 literal, port, path, query) -------------------
 * Shape: concrete scheme prefix "<scheme>://" (one job per scheme) followed by K symbolic bytes, or (NOSCHEME) an entirely
 * symbolic N-byte string. Input is an exact-size heap object. Oracle: an independent splitter written from
 * RFC 7252 6.1/6.2 (coap-URI = scheme "://" host [":" port] path-abempty ["?" query]) and RFC 3986 3.2.2 (IP-literal). */
#ifdef B1
#ifndef SCH
#define SCH 0
#endif
#ifndef K
#define K 3
#endif
#ifndef PROXY
#define PROXY 0
#endif
static int b1_sup[6];
int coap_dtls_is_supported(void) { return b1_sup[0]; }
int coap_tcp_is_supported(void) { return b1_sup[1]; }
int coap_tls_is_supported(void) { return b1_sup[2]; }
int coap_ws_is_supported(void) { return b1_sup[3]; }
int coap_wss_is_supported(void) { return b1_sup[4]; }

typedef struct { int ok; int port; int ho, hl, po, pl, qo, ql; } ruri_t;

/* r: the bytes after "://" (n of them); offsets are relative to r */
static void
ref_authority(const uint8_t *r, int n, int defport, ruri_t *u) {
  int i = 0, unix_dom = 0;
  u->ok = 0; u->port = defport; u->ho = u->hl = u->po = u->pl = u->qo = u->ql = 0;
  if (n == 0) return;
  if (r[0] == '[') {
    int e = 1;
    while (e < n && r[e] != ']') e++;
    if (e >= n || e == 1) return;
    u->ho = 1; u->hl = e - 1; i = e + 1;
  } else {
    while (i < n && r[i] != ':' && r[i] != '/' && r[i] != '?') i++;
    if (i == 0) return;
    u->ho = 0; u->hl = i;
    if (n >= 3 && r[0] == '%' && r[1] == '2' && (r[2] == 'F' || r[2] == 'f')) { unix_dom = 1; u->port = 0; }
  }
  if (i < n && r[i] == ':') {
    long v = 0; int d = 0;
    if (unix_dom) return;
    i++;
    while (i < n && r[i] >= '0' && r[i] <= '9') { if (v <= 65535) v = v * 10 + (r[i] - '0'); i++; d++; }
    if (v > 65535) return;
    if (d) u->port = (int)v;
  }
  if (i < n) {
    if (r[i] == '/') {
      int s = ++i;
      while (i < n && r[i] != '?') i++;
      u->po = s; u->pl = i - s;
    } else if (r[i] != '?') return;
  }
  if (i < n) { /* r[i] == '?' */ u->qo = i + 1; u->ql = n - i - 1; }
  u->ok = 1;
}

static const char *const b1_names[8] = { "coap", "coaps", "coap+tcp", "coaps+tcp", "http", "https", "coap+ws", "coaps+ws" };
static const int b1_ports[8] = { 5683, 5684, 5683, 5684, 80, 443, 80, 443 };
static const int b1_proxy_only[8] = { 0, 0, 0, 0, 1, 1, 0, 0 };
static const int b1_supidx[8] = { -1, 0, 1, 2, -1, -1, 3, 4 };
static const int b1_schemes[8] = { COAP_URI_SCHEME_COAP, COAP_URI_SCHEME_COAPS, COAP_URI_SCHEME_COAP_TCP, COAP_URI_SCHEME_COAPS_TCP,
                                   COAP_URI_SCHEME_HTTP, COAP_URI_SCHEME_HTTPS, COAP_URI_SCHEME_COAP_WS, COAP_URI_SCHEME_COAPS_WS };

VERIF_HARNESS(c16_b1_split_uri) {
  int j;
  for (j = 0; j < 5; j++) { VERIF_IN(uint8_t, b); b1_sup[j] = b & 1; }
#ifdef NOSCHEME
  /* entirely symbolic string of N bytes: shorter than any "<scheme>://x", so only the leading-'/' form can be accepted */
#define TOT N
  const int pre = 0;
#if N > 0
  VERIF_IN_BUF(in, N);
#else
  uint8_t in[1] = {0};
#endif
#else
#define PRE_MAX 12
#define TOT (PRE_MAX + K)
  static uint8_t in[PRE_MAX + K + 1];
  const char *nm = b1_names[SCH];
  int pre = 0;
  while (nm[pre]) { in[pre] = (uint8_t)nm[pre]; pre++; }
  in[pre++] = ':'; in[pre++] = '/'; in[pre++] = '/';
  for (j = 0; j < K; j++) { VERIF_IN(uint8_t, c); in[pre + j] = c; }
#endif
#ifdef NOSCHEME
  const size_t len = N;
#else
  const size_t len = (size_t)pre + K;
#endif
  uint8_t *s = exact(in, len);
  coap_uri_t uri;
  memset(&uri, 0x5a, sizeof(uri));
  int res = PROXY ? coap_split_proxy_uri(s, len, &uri) : coap_split_uri(s, len, &uri);
  ruri_t u;
#ifdef NOSCHEME
  if (len > 0 && s[0] == '/' && !PROXY) {
    /* abs-path [ "?" query ]: no scheme, host or port */
    int i = 1;
    while (i < (int)len && s[i] != '?') i++;
    VERIF_ASSERT(res == 0, "B1 an absolute path with optional query is accepted");
    VERIF_ASSERT(uri.host.length == 0 && uri.port == COAP_DEFAULT_PORT, "B1 no host, default port for a path-only URI");
    VERIF_ASSERT(uri.path.length == (size_t)(i - 1) && (uri.path.length == 0 || uri.path.s == s + 1), "B1 path-only: path is the bytes up to '?'");
    if (i < (int)len) VERIF_ASSERT(uri.query.length == len - i - 1 && uri.query.s == s + i + 1, "B1 path-only: query is the bytes after '?'");
    else VERIF_ASSERT(uri.query.length == 0, "B1 path-only: no query without '?'");
  } else {
    VERIF_ASSERT(res < 0, "B1 a string too short for any scheme and without leading '/' is rejected");
  }
  (void)u; (void)pre;
#else
  ref_authority(s + pre, K, b1_ports[SCH], &u);
  int sup = b1_supidx[SCH] < 0 ? 1 : b1_sup[b1_supidx[SCH]];
  if (b1_proxy_only[SCH] && !PROXY) sup = 0;
  if (!sup) {
    VERIF_ASSERT(res < 0, "B1 a scheme this build does not support (or a proxy-only scheme in a non-proxy URI) is rejected");
  } else {
    VERIF_ASSERT((res == 0) == (u.ok != 0), "B1 accepts exactly the URIs of RFC 7252 6.1/6.2 structure (host [:port] path-abempty [?query])");
    if (res == 0 && u.ok) {
      VERIF_ASSERT(uri.scheme == b1_schemes[SCH], "B1 scheme recognised");
      VERIF_ASSERT(uri.port == u.port, "B1 port: explicit decimal value, else the scheme default (0 for a Unix-domain host)");
      VERIF_ASSERT(uri.host.length == (size_t)u.hl && uri.host.s == s + pre + u.ho, "B1 host: reg-name/IPv4 up to ':' '/' '?', or the inside of an IPv6 literal");
      VERIF_ASSERT(uri.path.length == (size_t)u.pl && (u.pl == 0 || uri.path.s == s + pre + u.po), "B1 path: bytes after the first '/' up to '?'");
      VERIF_ASSERT(uri.query.length == (size_t)u.ql && (u.ql == 0 || uri.query.s == s + pre + u.qo), "B1 query: bytes after the first '?'");
    }
  }
#endif
  free(s);
#ifdef WITNESS
#if !defined(NOSCHEME) && (SCH == 4 || SCH == 5) && !PROXY
  if (res < 0) VERIF_REACH("B1 proxy-only scheme rejected");
#elif !defined(NOSCHEME) && K >= 5
  if (res == 0 && uri.port == 7 && uri.query.length == 1) VERIF_REACH("B1 host:port?query accepted");
#elif !defined(NOSCHEME) && K >= 1
  if (res == 0) VERIF_REACH("B1 accepted");
#else
  VERIF_REACH("B1 end");
#endif
#endif
}
#endif /* B1 */
