/* C20-B2 / C18 scenario-wellknown: the built-in GET handler of /.well-known/core (static hnd_get_wellknown_lkd in coap_net.c) with
 * block-wise support switched on. The body is handed to coap_add_data_large_response_lkd(), replaced here by a recording stub that
 * follows that function's ownership contract (coap_block.h): on success the body is kept and released later through release_func;
 * on failure release_func has ALREADY been called exactly once when the function returns 0. (That the real function keeps this
 * contract is decided for the request variant in C18 scenario-large.)
 * C20: the size probe and the second print agree, the body handed over is exactly the RFC 6690 listing, media type 40, code 2.05.
 * C18 (ENV_ALLOC_MAY_FAIL, stub may fail): 5.03 and an empty response, listing released exactly once (CBMC double-free / leak checks). */
#include "common/netenv.h"
#include "common/unreach.h"

void __CPROVER_file_local_coap_net_c_hnd_get_wellknown_lkd(coap_resource_t *resource, coap_session_t *session, const coap_pdu_t *request,
                                                           const coap_string_t *query, coap_pdu_t *response);
#ifndef PL
#define PL 2
#endif
#ifdef ENV_ALLOC_MAY_FAIL
extern int env_alloc_fail_enabled;
extern unsigned env_alloc_calls, env_alloc_failed;
#endif
static int big_calls, big_fail, rel_calls;
static size_t big_len;
static uint8_t big_copy[64];
static uint16_t big_media;
int
coap_add_data_large_response_lkd(coap_resource_t *resource, coap_session_t *session, const coap_pdu_t *request, coap_pdu_t *response,
                                 const coap_string_t *query, uint16_t media_type, int maxage, uint64_t etag, size_t length, const uint8_t *data,
                                 coap_release_large_data_t release_func, void *app_ptr) {
  (void)resource; (void)request; (void)response; (void)query; (void)maxage; (void)etag;
  size_t i;
  big_calls++;
  big_len = length;
  big_media = media_type;
  for (i = 0; i < length && i < sizeof(big_copy); i++) big_copy[i] = data[i];
#ifdef ENV_ALLOC_MAY_FAIL
  {
    VERIF_IN(uint8_t, large_fails);
    big_fail = large_fails & 1;
  }
#endif
  /* either way the body is released through the callback exactly once (immediately here: the transfer is not modelled) */
  if (release_func) { rel_calls++; release_func(session, app_ptr); }
  return !big_fail;
}

VERIF_HARNESS(c20_b2_handler) {
  static coap_resource_t res, wk;
  static coap_str_const_t path;
  static uint8_t pbytes[PL + 1];
  int i;
#ifdef ENV_ALLOC_MAY_FAIL
  static const uint8_t pb[3] = {'a', 'b', 'c'};       /* C18: concrete data, symbolic failure pattern */
#else
  VERIF_IN_BUF(pb, PL + 1);
#endif
  ne_init();
  ne_sess.type = COAP_SESSION_TYPE_SERVER;
  ne_sess.block_mode = COAP_BLOCK_USE_LIBCOAP;
  for (i = 0; i < PL; i++) pbytes[i] = pb[i];
  memset(&res, 0, sizeof(res));
  path.s = pbytes; path.length = PL;
  res.uri_path = &path;
  res.context = &ne_ctx;
  ne_ctx.resources = &res;                 /* uthash iteration contract: RESOURCES_ITER follows hh.next */
  big_calls = big_fail = rel_calls = 0;
  coap_pdu_t *req = coap_pdu_init(COAP_MESSAGE_CON, COAP_REQUEST_CODE_GET, 0x1234, 64);
  coap_pdu_t *resp = coap_pdu_init(COAP_MESSAGE_ACK, 0, 0x1234, 256);
  VERIF_ASSUME(req != NULL && resp != NULL);
#ifdef ENV_ALLOC_MAY_FAIL
  env_alloc_fail_enabled = 1;
#endif
  __CPROVER_file_local_coap_net_c_hnd_get_wellknown_lkd(&wk, &ne_sess, req, NULL, resp);
#ifdef ENV_ALLOC_MAY_FAIL
  env_alloc_fail_enabled = 0;
  if (env_alloc_failed || big_fail) {
    VERIF_ASSERT(resp->code == COAP_RESPONSE_CODE(503) && resp->used_size == resp->e_token_length && resp->data == NULL, "wellknown: a failed allocation gives an empty 5.03 response");
  }
  VERIF_ASSERT(rel_calls == big_calls, "wellknown: a listing handed to the block layer is released by it exactly once");
#endif
  if (!big_fail && big_calls == 1) {
    VERIF_ASSERT(resp->code == COAP_RESPONSE_CODE(205), "B2 the listing is answered 2.05");
    VERIF_ASSERT(big_media == COAP_MEDIATYPE_APPLICATION_LINK_FORMAT, "B2 the listing is labelled application/link-format");
    VERIF_ASSERT(big_len == PL + 3, "B2 the size probe and the second print agree: the body handed over has the full listing length");
    VERIF_ASSERT(big_copy[0] == '<' && big_copy[1] == '/' && big_copy[PL + 2] == '>', "B2 the body is the RFC 6690 listing of the resource table");
    for (i = 0; i < PL; i++) VERIF_ASSERT(big_copy[2 + i] == pbytes[i], "B2 the listing carries the resource path bytes");
  }
#ifndef ENV_ALLOC_MAY_FAIL
  VERIF_ASSERT(big_calls == 1 && rel_calls == 1, "B2 the listing is handed to the block layer once");
#endif
  coap_delete_pdu(req);
  coap_delete_pdu(resp);
#ifdef WITNESS
#ifdef ENV_ALLOC_MAY_FAIL
  if (big_fail && big_calls == 1) VERIF_REACH("wellknown: the block layer refused the body");
#else
  VERIF_REACH("B2 end");
#endif
#endif
}
