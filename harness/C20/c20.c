/* C20 - /.well-known/core lists exactly the registered resources in any window/filter (DESIGN 4.20) */
#include "coap3/coap_libcoap_build.h"
#include "common/verif.h"
#include <stdlib.h>

int __CPROVER_file_local_coap_resource_c_match(const coap_str_const_t *text, const coap_str_const_t *pattern, int match_prefix, int match_substring);

static uint8_t *
exact(const uint8_t *src, size_t n) {
  uint8_t *p = malloc(n ? n : 1);
  __CPROVER_assume(p != NULL);
  if (n) memcpy(p, src, n);
  return p;
}

/* ---- reference listing of one resource (RFC 6690 section 2) -------------------------------------------------------- */
#ifndef PL
#define PL 2          /* path length */
#endif
#ifndef NATTR
#define NATTR 1
#endif
#ifndef AN
#define AN 2          /* attribute name length */
#endif
#ifndef AV
#define AV 3          /* attribute value length; -1: no value */
#endif
#ifndef OBS
#define OBS 1
#endif
#ifndef OSC
#define OSC 0
#endif
#define LMAX 64

typedef struct { uint8_t path[PL + 1]; uint8_t an[AN + 1]; uint8_t av[(AV > 0 ? AV : 0) + 1]; } rdesc_t;

static size_t
ref_link(const rdesc_t *d, uint8_t *out) {
  size_t o = 0;
  int i;
  out[o++] = '<'; out[o++] = '/';
  for (i = 0; i < PL; i++) out[o++] = d->path[i];
  out[o++] = '>';
#if NATTR >= 1
  out[o++] = ';';
  for (i = 0; i < AN; i++) out[o++] = d->an[i];
#if AV >= 0
  out[o++] = '=';
  for (i = 0; i < AV; i++) out[o++] = d->av[i];
#endif
#endif
#if OBS
  out[o++] = ';'; out[o++] = 'o'; out[o++] = 'b'; out[o++] = 's';
#endif
#if OSC
  out[o++] = ';'; out[o++] = 'o'; out[o++] = 's'; out[o++] = 'c';     /* OSCORE-only marker */
#endif
  return o;
}

static coap_resource_t *
make_resource(const rdesc_t *d, coap_str_const_t *path, coap_attr_t *attr, coap_str_const_t *an, coap_str_const_t *av) {
  static coap_resource_t r[3];
  static int k;
  coap_resource_t *x = &r[k++ % 3];
  memset(x, 0, sizeof(*x));
  path->length = PL; path->s = d->path;
  x->uri_path = path;
  x->observable = OBS;
#if OSC
  x->flags |= COAP_RESOURCE_FLAGS_OSCORE_ONLY;
#endif
#if NATTR >= 1
  memset(attr, 0, sizeof(*attr));
  an->length = AN; an->s = d->an;
  attr->name = an;
#if AV >= 0
  av->length = AV; av->s = d->av;
  attr->value = av;
#endif
  x->link_attr = attr;
#endif
  return x;
}

/* ---- L1: coap_print_link, every (offset, buflen) window ------------------------------------------------------------- */
VERIF_HARNESS(c20_l1_print_link) {
  rdesc_t d;
  VERIF_IN_BUF(pb, PL + 1); VERIF_IN_BUF(nb, AN + 1); VERIF_IN_BUF(vb, (AV > 0 ? AV : 0) + 1);
  memcpy(d.path, pb, PL + 1); memcpy(d.an, nb, AN + 1); memcpy(d.av, vb, (AV > 0 ? AV : 0) + 1);
  static coap_str_const_t path, an, av;
  static coap_attr_t attr;
  coap_resource_t *r = make_resource(&d, &path, &attr, &an, &av);
  static uint8_t full[LMAX];
  size_t total = ref_link(&d, full);
  VERIF_IN(uint8_t, off);
  VERIF_IN(uint8_t, bl);
  VERIF_ASSUME(off <= total + 2 && bl <= total + 2);
  static uint8_t out[LMAX];
  memset(out, VERIF_CANARY, LMAX);
  size_t len = bl, offset = off;
  coap_print_status_t st = coap_print_link(r, out, &len, &offset);
  VERIF_ASSERT(!(st & COAP_PRINT_STATUS_ERROR), "L1 no error");
  size_t w = COAP_PRINT_OUTPUT_LENGTH(st);
  size_t expw = off >= total ? 0 : (total - off < bl ? total - off : bl);
  VERIF_ASSERT(len == total, "L1 reported total length is the full listing length");
  VERIF_ASSERT(w == expw, "L1 number of bytes written = size of the window [offset, offset+buflen) of the listing");
  {
    VERIF_IN(uint8_t, i);
    VERIF_ASSUME(i < LMAX);
    if (i < expw) VERIF_ASSERT(out[i] == full[off + i], "L1 bytes written are exactly that window of the RFC 6690 listing");
    else VERIF_ASSERT(out[i] == VERIF_CANARY, "L1 nothing is written outside the window");
  }
  if (bl > 0) VERIF_ASSERT(((st & COAP_PRINT_STATUS_TRUNC) != 0) == (off + expw < total), "L1 truncation flag set exactly when listing remains beyond the window");
  if (bl > 0) VERIF_ASSERT(offset == (off > total ? off - total : 0), "L1 offset is reduced by the amount of listing skipped (non-empty buffer)");
#ifdef WITNESS
#if PL + NATTR * 3 >= 4
  if (expw > 3 && off > 2 && (st & COAP_PRINT_STATUS_TRUNC)) VERIF_REACH("L1 inner window, truncated");
#else
  if (expw >= 1 && (st & COAP_PRINT_STATUS_TRUNC)) VERIF_REACH("L1 truncated window");
#endif
#endif
}

/* ---- L2: match() on exact-size text and pattern ------------------------------------------------------------------------ */
#ifndef TL
#define TL 3
#endif
#ifndef QL
#define QL 2
#endif
static int
ref_match(const uint8_t *t, size_t tl, const uint8_t *p, size_t pl, int prefix, int substring) {
  size_t i;
  if (!substring) {
    if (prefix ? tl < pl : tl != pl) return 0;
    for (i = 0; i < pl; i++) if (t[i] != p[i]) return 0;
    return 1;
  } else {
    /* space-separated tokens (RFC 6690: rt, if, rel values) */
    size_t start = 0;
    for (i = 0; i <= tl; i++) {
      if (i == tl || t[i] == ' ') {
        size_t kl = i - start, j;
        int ok = prefix ? kl >= pl : kl == pl;
        for (j = 0; ok && j < pl; j++) if (t[start + j] != p[j]) ok = 0;
        if (ok) return 1;
        start = i + 1;
      }
    }
    return 0;
  }
}
VERIF_HARNESS(c20_l2_match) {
#if TL > 0
  VERIF_IN_BUF(tb, TL);
#else
  uint8_t tb[1] = {0};
#endif
#if QL > 0
  VERIF_IN_BUF(qb, QL);
#else
  uint8_t qb[1] = {0};
#endif
  VERIF_IN(uint8_t, prefix);
  VERIF_IN(uint8_t, substring);
  VERIF_ASSUME(prefix <= 1 && substring <= 1);
  {
    /* a token pattern does not itself contain the token separator */
    int k;
    for (k = 0; k < QL; k++) VERIF_ASSUME(!substring || qb[k] != ' ');
  }
  coap_str_const_t text = {TL, exact(tb, TL)}, pat = {QL, exact(qb, QL)};
  int r = __CPROVER_file_local_coap_resource_c_match(&text, &pat, prefix, substring);
  int e = ref_match(text.s, TL, pat.s, QL, prefix, substring);
  VERIF_ASSERT((r != 0) == (e != 0), "L2 match(): exact / prefix / space-separated-token matching as RFC 6690 section 4.1 describes");
#ifdef WITNESS
  if (r && substring && prefix && TL > QL) VERIF_REACH("L2 prefix token match");
  if (TL <= QL) VERIF_REACH("L2 end");
#endif
}

/* ---- B1: coap_print_wellknown_lkd over a hand-linked resource list (uthash iteration follows hh.next) ------------------- */
#ifndef NRES
#define NRES 2
#endif
#ifndef FILTER
#define FILTER 0      /* 0 none; 1 "<an>=<av>" exact on the attribute; 2 href=/<path of resource 0> */
#endif
VERIF_HARNESS(c20_b1_wellknown) {
  static coap_context_t ctx;
  static rdesc_t d[2];
  static coap_str_const_t path[2], an[2], av[2];
  static coap_attr_t attr[2];
  coap_resource_t *r[2];
  int k;
  VERIF_IN_BUF(pb0, PL + 1); VERIF_IN_BUF(nb0, AN + 1); VERIF_IN_BUF(vb0, (AV > 0 ? AV : 0) + 1);
  VERIF_IN_BUF(pb1, PL + 1); VERIF_IN_BUF(nb1, AN + 1); VERIF_IN_BUF(vb1, (AV > 0 ? AV : 0) + 1);
  memcpy(d[0].path, pb0, PL + 1); memcpy(d[0].an, nb0, AN + 1); memcpy(d[0].av, vb0, (AV > 0 ? AV : 0) + 1);
  memcpy(d[1].path, pb1, PL + 1); memcpy(d[1].an, nb1, AN + 1); memcpy(d[1].av, vb1, (AV > 0 ? AV : 0) + 1);
  memset(&ctx, 0, sizeof(ctx));
  for (k = 0; k < NRES; k++) r[k] = make_resource(&d[k], &path[k], &attr[k], &an[k], &av[k]);
  ctx.resources = r[0];
#if NRES == 2
  r[0]->hh.next = r[1];
#endif
  /* expected listing */
  static uint8_t full[2 * LMAX];
  size_t total = 0;
  int inc[2] = {1, 1};
#if FILTER == 1
  /* filter on resource 1's attribute name with resource 1's value: resource 0 is listed only if its attribute
   * name and value are byte-equal */
  static uint8_t fbuf[AN + 1 + (AV > 0 ? AV : 0) + 1];
  coap_string_t flt = {AN + 1 + (AV > 0 ? AV : 0), fbuf};
  {
    int i;
    for (i = 0; i < AN; i++) fbuf[i] = d[NRES - 1].an[i];
    fbuf[AN] = '=';
    for (i = 0; i < (AV > 0 ? AV : 0); i++) fbuf[AN + 1 + i] = d[NRES - 1].av[i];
    /* keep the job about exact attribute matching: no '=' inside the name, not one of the special names, no wildcard/quote */
    for (i = 0; i < AN; i++) VERIF_ASSUME(d[NRES - 1].an[i] != '=' && d[NRES - 1].an[i] != 'r' && d[NRES - 1].an[i] != 'i' && d[NRES - 1].an[i] != 'h');
    for (i = 0; i < (AV > 0 ? AV : 0); i++) VERIF_ASSUME(d[NRES - 1].av[i] != '*' && d[NRES - 1].av[i] != '"');
    for (k = 0; k < NRES; k++) {
#ifndef QUOTES_ALLOWED
      VERIF_ASSUME((AV > 0 ? AV : 0) == 0 || d[k].av[0] != '"');
#endif
      inc[k] = memcmp(d[k].an, d[NRES - 1].an, AN) == 0 && memcmp(d[k].av, d[NRES - 1].av, (AV > 0 ? AV : 0)) == 0;
    }
  }
  coap_string_t *fp = &flt;
#else
  coap_string_t *fp = NULL;
#endif
  {
    int first = 1;
    for (k = 0; k < NRES; k++)
      if (inc[k]) {
        if (!first) full[total++] = ',';
        first = 0;
        total += ref_link(&d[k], full + total);
      }
  }
  VERIF_IN(uint8_t, off);
  VERIF_IN(uint8_t, bl);
  VERIF_ASSUME(off <= total + 2 && bl <= total + 2);
  static uint8_t out[2 * LMAX];
  memset(out, VERIF_CANARY, sizeof(out));
  size_t buflen = bl;
  coap_print_status_t st = coap_print_wellknown_lkd(&ctx, out, &buflen, off, fp);
  VERIF_ASSERT(!(st & COAP_PRINT_STATUS_ERROR), "B1 no error");
  size_t w = COAP_PRINT_OUTPUT_LENGTH(st);
  size_t expw = off >= total ? 0 : (total - off < bl ? total - off : bl);
  VERIF_ASSERT(buflen == total, "B1 reported total length is exact (all listed resources and separators)");
  VERIF_ASSERT(w == expw, "B1 bytes written = the requested window of the full listing");
  {
    VERIF_IN(uint8_t, i);
    VERIF_ASSUME(i < 2 * LMAX);
    if (i < expw) VERIF_ASSERT(out[i] == full[off + i], "B1 window content equals the RFC 6690 listing of exactly the matching resources");
    else VERIF_ASSERT(out[i] == VERIF_CANARY, "B1 nothing is written outside the window");
  }
  if (bl > 0) VERIF_ASSERT(((st & COAP_PRINT_STATUS_TRUNC) != 0) == (off + expw < total), "B1 truncation flag exactly when listing remains");
#ifdef WITNESS
#if NRES == 2 && FILTER == 0
  if (expw > 2 && off > total / 2 && total > 8) VERIF_REACH("B1 window in the second resource");
#else
  if (expw >= 1 && off >= 1) VERIF_REACH("B1 inner window");
#endif
#endif
}
