"""Shared machinery for the solver-based checks (see /verif/DESIGN.md, section 1).

Pipeline per check run (bin/check <ID> --tier T):
  configure (cmake, regenerates coap_config.h / coap_defines.h from /repo's current tree)
  -> goto-cc every needed /repo/src unit (cached inside the scratch dir only)
  -> per job: goto-cc harness+stubs, link, optional body removal, cbmc (SAT), parse json
  -> per job a vacuity twin (-DWITNESS) that must FAIL on its reachability assertion
  -> on failure: re-run with --trace, extract named inputs, native replay (gcc+ASan/UBSan)
  -> known-findings matching, VIOLATION / KNOWN-FINDING lines, evidence file.
Nothing under the scratch directory is needed after the run.
"""
import concurrent.futures as cf
import hashlib
import json
import os
import re
import resource
import shutil
import subprocess
import sys
import tempfile
import time
from dataclasses import dataclass, field

VERIF = os.path.dirname(os.path.dirname(os.path.dirname(os.path.abspath(__file__))))
REPO = os.environ.get("VERIF_REPO", "/repo")
HARNESS = os.path.join(VERIF, "harness")
# seeded-change runs redirect evidence and replay files so that the committed evidence always describes /repo itself
OUT = os.environ.get("VERIF_OUT", VERIF)
GUARD = "LIBCOAP_VERIF"

STD_FLAGS = [
    "--drop-unused-functions", "--pointer-overflow-check", "--signed-overflow-check",
    "--undefined-shift-check", "--unwinding-assertions", "--no-malloc-may-fail",
    "--object-bits", "10",
]


@dataclass
class Job:
    name: str
    harness: str                      # relative to /verif/harness
    entry: str
    units: list = field(default_factory=list)      # /repo/src relative
    defines: list = field(default_factory=list)    # harness + extra_src defines
    unit_defines: list = field(default_factory=list)
    extra_src: list = field(default_factory=list)  # relative to /verif/harness
    unwind: int = None
    unwindset: dict = field(default_factory=dict)
    flags: list = field(default_factory=list)
    remove_bodies: list = field(default_factory=list)
    timeout: int = 300
    mem_gb: int = 12        # hard cap (ulimit -v)
    est_gb: float = 2       # expected peak, used for admission control (sum over running jobs <= 80% of RAM)
    tier: str = "quick"
    kf: str = None          # companion job of a known finding: expected to FAIL while status=known
    witness: bool = True
    termination: bool = False   # unwinding-assertion failures are violations (C02-style)
    desc: str = ""
    bounds: dict = field(default_factory=dict)
    std_flags: bool = True
    cfg_patch: dict = None   # {"COAP_THREAD_SAFE": "1"} -> patched copy of coap_defines.h
    native_replay: bool = True
    solver: list = field(default_factory=list)  # e.g. ["--sat-solver","cadical"]
    witness_violation: str = None   # if set: an unreachable witness is itself the violation (e.g. no completing schedule)
    group: str = ""
    object_bits: int = 10


class Ctx:
    def __init__(self, prop, tier, keep=False):
        self.prop = prop
        self.tier = tier
        self.scratch = tempfile.mkdtemp(prefix="verif-%s-" % prop)
        self.keep = keep
        self.cfg = None
        self.unit_cache = {}
        import threading
        self._cfg_lock = threading.Lock()
        self.t0 = time.time()
        self.kf = load_known_findings()

    def cleanup(self):
        if not self.keep:
            shutil.rmtree(self.scratch, ignore_errors=True)

    # ---- configure -------------------------------------------------------
    def configure(self):
        """cmake configure into scratch (or a content-addressed cache under /verif/.cache)."""
        h = hashlib.sha256()
        for rel in ["CMakeLists.txt", "cmake_coap_config.h.in", "cmake_coap_defines.h.in"]:
            p = os.path.join(REPO, rel)
            h.update(open(p, "rb").read() if os.path.exists(p) else b"-")
        cm = os.path.join(REPO, "cmake")
        if os.path.isdir(cm):
            for root, _, files in sorted(os.walk(cm)):
                for f in sorted(files):
                    h.update(open(os.path.join(root, f), "rb").read())
        key = h.hexdigest()[:16]
        cache = os.path.join(VERIF, ".cache", "cfg-" + key)
        ok = os.path.join(cache, "OK")
        if not os.path.exists(ok):
            tmp = tempfile.mkdtemp(prefix="cfgbuild-")
            try:
                r = subprocess.run(["cmake", "-S", REPO, "-B", tmp, "-G", "Ninja", "-DENABLE_DOCS=OFF"],
                                   stdout=subprocess.PIPE, stderr=subprocess.STDOUT, text=True)
                if r.returncode != 0:
                    sys.stderr.write(r.stdout[-4000:])
                    raise RuntimeError("cmake configure failed")
                stage = cache + ".%d" % os.getpid()
                shutil.rmtree(stage, ignore_errors=True)
                os.makedirs(os.path.join(stage, "include", "coap3"))
                shutil.copy(os.path.join(tmp, "coap_config.h"), stage)
                shutil.copy(os.path.join(tmp, "include", "coap3", "coap_defines.h"),
                            os.path.join(stage, "include", "coap3"))
                open(os.path.join(stage, "OK"), "w").write(key)
                os.makedirs(os.path.dirname(cache), exist_ok=True)
                try:
                    os.rename(stage, cache)
                except OSError:
                    shutil.rmtree(stage, ignore_errors=True)  # lost a race: fine
            finally:
                shutil.rmtree(tmp, ignore_errors=True)
        self.cfg = cache
        return cache

    def cfg_dir(self, patch):
        if not patch:
            return self.cfg
        with self._cfg_lock:
            return self._cfg_dir_locked(patch)

    def _cfg_dir_locked(self, patch):
        tag = hashlib.sha256(json.dumps(patch, sort_keys=True).encode()).hexdigest()[:8]
        d = os.path.join(self.scratch, "cfg-" + tag)
        if not os.path.exists(os.path.join(d, "include", "coap3", "coap_defines.h")):
            os.makedirs(os.path.join(d, "include", "coap3"), exist_ok=True)
            shutil.copy(os.path.join(self.cfg, "coap_config.h"), d)
            txt = open(os.path.join(self.cfg, "include", "coap3", "coap_defines.h")).read()
            for k, v in patch.items():
                txt, n = re.subn(r"(?m)^\s*#\s*define\s+%s\b.*$" % re.escape(k),
                                 "#define %s %s" % (k, v) if v is not None else "/* %s off */" % k, txt)
                if n == 0 and v is not None:
                    txt = txt.replace("#define COAP_DEFINES_H_", "#define COAP_DEFINES_H_\n#define %s %s" % (k, v), 1)
            open(os.path.join(d, "include", "coap3", "coap_defines.h"), "w").write(txt)
        return d

    def incflags(self, patch=None):
        c = self.cfg_dir(patch)
        return ["-I" + c, "-I" + os.path.join(c, "include"), "-I" + os.path.join(REPO, "include"),
                "-I" + os.path.join(REPO, "src"), "-I" + HARNESS, "-DNDEBUG", "-D" + GUARD,
                "-DHAVE_CONFIG_H"]

    # ---- goto-cc ---------------------------------------------------------
    def compile_unit(self, unit, defines, patch=None):
        key = (unit, tuple(defines), json.dumps(patch, sort_keys=True))
        if key in self.unit_cache:
            return self.unit_cache[key]
        tag = hashlib.sha256(repr(key).encode()).hexdigest()[:10]
        out = os.path.join(self.scratch, "u-%s-%s.gb" % (os.path.basename(unit).replace(".", "_"), tag))
        src = os.path.join(REPO, "src", unit)
        cmd = ["goto-cc", "--export-file-local-symbols", "-c", src, "-o", out] + self.incflags(patch) + \
              ["-D" + d for d in defines]
        r = subprocess.run(cmd, stdout=subprocess.PIPE, stderr=subprocess.STDOUT, text=True)
        if r.returncode != 0:
            raise RuntimeError("goto-cc failed for %s:\n%s" % (unit, r.stdout[-3000:]))
        self.unit_cache[key] = out
        return out


def load_known_findings():
    p = os.path.join(VERIF, "known_findings.json")
    if not os.path.exists(p):
        return {}
    d = json.load(open(p))
    return {e["id"]: e for e in d.get("findings", [])}


def _limit(mem_gb):
    def f():
        b = int(mem_gb * (1 << 30))
        resource.setrlimit(resource.RLIMIT_AS, (b, b))
        os.setsid()
    return f


CHILDREN = set()


def _kill_children(*_a):
    for pid in list(CHILDREN):
        try:
            os.killpg(pid, 9)
        except Exception:
            pass
    raise SystemExit(143)


def run_cmd(cmd, timeout, mem_gb, cwd=None, stdout_path=None):
    """Run with wall/RSS caps. Returns (rc|'timeout', stdout_text, wall, maxrss_kb)."""
    t = time.time()
    out = open(stdout_path, "w") if stdout_path else subprocess.PIPE
    p = subprocess.Popen(cmd, stdout=out, stderr=subprocess.STDOUT, text=True, cwd=cwd,
                         preexec_fn=_limit(mem_gb))
    CHILDREN.add(p.pid)
    try:
        so, _ = p.communicate(timeout=timeout)
        rc = p.returncode
    except subprocess.TimeoutExpired:
        try:
            os.killpg(p.pid, 9)
        except Exception:
            p.kill()
        so, _ = p.communicate()
        rc = "timeout"
    CHILDREN.discard(p.pid)
    if stdout_path:
        out.close()
        so = None
    ru = resource.getrusage(resource.RUSAGE_CHILDREN)
    return rc, so, time.time() - t, ru.ru_maxrss


# --------------------------------------------------------------------------
def build_job(ctx, job, witness=False, kf_excludes=()):
    """goto-cc harness + stubs, link with units. Returns path of goto binary."""
    tag = job.name + ("-w" if witness else "")
    d = os.path.join(ctx.scratch, "j-" + re.sub(r"[^A-Za-z0-9_.-]", "_", tag))
    os.makedirs(d, exist_ok=True)
    defs = list(job.defines) + ["KF_EXCLUDE_" + k.replace("-", "_") for k in kf_excludes]
    if witness:
        defs.append("WITNESS")
    objs = []
    for u in job.units:
        objs.append(ctx.compile_unit(u, job.unit_defines, job.cfg_patch))
    srcs = [os.path.join(HARNESS, job.harness)] + [os.path.join(HARNESS, s) for s in job.extra_src]
    hobjs = []
    for i, s in enumerate(srcs):
        o = os.path.join(d, "h%d.gb" % i)
        cmd = ["goto-cc", "-c", s, "-o", o] + ctx.incflags(job.cfg_patch) + ["-D" + x for x in defs]
        r = subprocess.run(cmd, stdout=subprocess.PIPE, stderr=subprocess.STDOUT, text=True)
        if r.returncode != 0:
            raise RuntimeError("goto-cc failed for harness %s:\n%s" % (s, r.stdout[-3000:]))
        hobjs.append(o)
    units = objs
    if job.remove_bodies and objs:
        # remove bodies in the linked unit image, then link harness (which supplies replacements)
        ulink = os.path.join(d, "units.gb")
        r = subprocess.run(["goto-cc", "-o", ulink] + objs, stdout=subprocess.PIPE, stderr=subprocess.STDOUT, text=True)
        if r.returncode != 0:
            raise RuntimeError("goto-cc unit link failed:\n" + r.stdout[-3000:])
        ulink2 = os.path.join(d, "units2.gb")
        cmd = ["goto-instrument"]
        for f in job.remove_bodies:
            cmd += ["--remove-function-body", f]
        r = subprocess.run(cmd + [ulink, ulink2], stdout=subprocess.PIPE, stderr=subprocess.STDOUT, text=True)
        if r.returncode != 0:
            raise RuntimeError("goto-instrument failed:\n" + r.stdout[-3000:])
        units = [ulink2]
    out = os.path.join(d, "job.gb")
    r = subprocess.run(["goto-cc", "-o", out] + hobjs + units, stdout=subprocess.PIPE, stderr=subprocess.STDOUT, text=True)
    if r.returncode != 0:
        raise RuntimeError("goto-cc link failed for %s:\n%s" % (job.name, r.stdout[-3000:]))
    return out, d


def cbmc_cmd(job, gb, extra=()):
    cmd = ["cbmc", gb, "--function", job.entry, "--json-ui"]
    if job.std_flags:
        cmd += [("%d" % job.object_bits) if (i > 0 and STD_FLAGS[i - 1] == "--object-bits") else f for i, f in enumerate(STD_FLAGS)]
    if job.unwind is not None:
        cmd += ["--unwind", str(job.unwind)]
    uws = dict(job.unwindset)
    # loops of libcoap leaf helpers whose bounds are constants of the code (64-bit fls; option filter slots 2+6)
    uws.setdefault("coap_flsll.0", 66)
    uws.setdefault("__CPROVER_file_local_coap_option_c_coap_option_filter_op.0", 4)
    uws.setdefault("__CPROVER_file_local_coap_option_c_coap_option_filter_op.1", 8)
    uws.setdefault("__ctype_b_loc.0", 258)          # env.c: C-locale ctype table, 256 entries
    uws.setdefault("coap_realloc_type.0", 25)
    uws.setdefault("coap_realloc_type.1", 1500)   # env.c byte-copy loop (concrete bound)
    cmd += ["--unwindset", ",".join("%s:%d" % kv for kv in uws.items())]
    cmd += list(job.flags) + list(job.solver) + list(extra)
    return cmd


def parse_cbmc(path):
    """Returns dict(status, props=[...], messages=[...]) from a --json-ui output file."""
    try:
        data = json.load(open(path))
    except Exception as e:
        txt = open(path, errors="replace").read()
        return {"status": "error", "props": [], "error": "unparsable cbmc output: %s; tail: %s" % (e, txt[-600:])}
    props, status, errs = [], None, []
    for e in data:
        if "result" in e:
            props = e["result"]
        elif "cProverStatus" in e:
            status = e["cProverStatus"]
        elif e.get("messageType") == "ERROR":
            errs.append(e.get("messageText", ""))
    return {"status": status or "error", "props": props, "errors": errs}


HARNESS_CLASSES = ("assertion",)


def classify(p):
    """Class of a failed property."""
    desc = p.get("description", "")
    pc = p.get("sourceLocation", {}).get("propertyClass") or p.get("propertyClass", "")
    pid = p.get("property", "")
    if "no body for callee" in desc or "no-body" in pid:
        return "no-body"
    if "unwinding assertion" in desc or ".unwind." in pid:
        return "unwind"
    if "recursion unwinding" in desc or ".recursion" in pid:
        return "unwind"
    if desc.startswith("WITNESS"):
        return "witness"
    if ".assertion." in pid or pc == "assertion":
        return "assert"
    if "pointer" in pid and "overflow" in pid or "pointer arithmetic" in desc:
        return "ptr-overflow"
    return "memsafety"


def decode_value(v):
    """CBMC json value -> bytes (little endian)."""
    n = v.get("name")
    if n in ("integer", "boolean") or "binary" in v:
        b = v.get("binary")
        if b is None:
            return b""
        width = len(b)
        val = int(b, 2)
        return val.to_bytes((width + 7) // 8, "little")
    if n == "struct":
        return b"".join(decode_value(m["value"]) for m in v.get("members", []))
    if n == "array":
        els = sorted(v.get("elements", []), key=lambda e: e["index"])
        return b"".join(decode_value(e["value"]) for e in els)
    return b""


def extract_inputs(trace):
    """All values returned by nondet_vin_<name>() in call order: {name: [hex,...]}.
    Whole-value assignments start a new instance; element-wise assignments (name.b[i]) patch the latest one
    (with --arrays-uf-always the whole-struct value is printed as 'unknown')."""
    res = {}
    for st in trace:
        if st.get("stepType") != "assignment" or st.get("hidden"):
            continue
        lhs = st.get("lhs", "")
        m = re.fullmatch(r"return_value_nondet_vin_(\w+?)(\$\d+)?(\.b\[(\d+)l?\])?", lhs)
        if not m:
            continue
        nm = re.sub(r"__L\d+$", "", m.group(1))
        if m.group(3) is None:
            res.setdefault(nm, []).append(bytearray(decode_value(st["value"])))
        else:
            idx = int(m.group(4))
            lst = res.setdefault(nm, [])
            if not lst:
                lst.append(bytearray())
            cur = lst[-1]
            if len(cur) <= idx:
                cur.extend(b"\0" * (idx + 1 - len(cur)))
            b = decode_value(st["value"])
            if b:
                cur[idx] = b[0]
    return {k: [bytes(x).hex() for x in v] for k, v in res.items()}


def trace_excerpt(trace, maxn=60):
    out = []
    for st in trace:
        t = st.get("stepType")
        sl = st.get("sourceLocation", {})
        loc = "%s:%s" % (os.path.basename(sl.get("file", "?")), sl.get("line", "?"))
        if t == "function-call":
            out.append("call %s @%s" % (st.get("function", {}).get("displayName"), loc))
        elif t == "failure":
            out.append("FAIL %s @%s %s" % (st.get("property"), loc, st.get("reason")))
        elif t == "assignment" and not st.get("hidden") and sl.get("file", "").startswith(REPO):
            v = st.get("value", {})
            out.append("%s = %s @%s" % (st.get("lhs"), v.get("data", v.get("name")), loc))
    return out[-maxn:]


# --------------------------------------------------------------------------
def native_replay(ctx, job, jobdir, inputs, kf_excludes=()):
    """Build the same harness natively with sanitizers against natively compiled units; run on inputs.
    Returns dict(status= reproduced|not-reproduced|assume-violated|build-failed|unavailable, output)."""
    if not job.native_replay:
        return {"status": "unavailable", "output": "job opts out of native replay (uses CBMC-only constructs)"}
    d = os.path.join(jobdir, "native")
    os.makedirs(d, exist_ok=True)
    inc = ctx.incflags(job.cfg_patch)
    cflags = ["-g", "-O0", "-fsanitize=address,undefined", "-fno-sanitize-recover=undefined",
              "-fno-omit-frame-pointer", "-w", "-DVERIF_REPLAY"]
    srcs = [os.path.join(HARNESS, job.harness)] + [os.path.join(HARNESS, s) for s in job.extra_src]
    alltxt = "".join(open(s).read() for s in srcs)
    objs = []
    defs = list(job.defines) + ["KF_EXCLUDE_" + k.replace("-", "_") for k in kf_excludes]
    for i, s in enumerate(srcs):
        o = os.path.join(d, "h%d.o" % i)
        r = subprocess.run(["gcc", "-c", s, "-o", o] + cflags + inc + ["-D" + x for x in defs],
                           stdout=subprocess.PIPE, stderr=subprocess.STDOUT, text=True)
        if r.returncode != 0:
            return {"status": "build-failed", "output": r.stdout[-2000:]}
        objs.append(o)
    for u in job.units:
        base = os.path.basename(u)
        o = os.path.join(d, base.replace(".", "_") + ".o")
        r = subprocess.run(["gcc", "-c", os.path.join(REPO, "src", u), "-o", o] + cflags + inc +
                           ["-D" + x for x in job.unit_defines],
                           stdout=subprocess.PIPE, stderr=subprocess.STDOUT, text=True)
        if r.returncode != 0:
            return {"status": "build-failed", "output": r.stdout[-2000:]}
        mangled = "__CPROVER_file_local_" + base.replace(".", "_") + "_"
        oc1, oc2 = ["objcopy"], ["objcopy"]
        for fn in set(re.findall(re.escape(mangled) + r"(\w+)", alltxt)):
            oc1 += ["--redefine-sym", "%s=%s%s" % (fn, mangled, fn)]
            oc2 += ["--globalize-symbol=" + mangled + fn]
        for fn in job.remove_bodies:
            oc2 += ["--weaken-symbol=" + fn]
        for oc in (oc1, oc2):
            if len(oc) > 1:
                r = subprocess.run(oc + [o], stdout=subprocess.PIPE, stderr=subprocess.STDOUT, text=True)
                if r.returncode != 0:
                    return {"status": "build-failed", "output": r.stdout[-2000:]}
        objs.append(o)
    exe = os.path.join(d, "replay")
    # replay support (input loader + entry dispatcher)
    ro = os.path.join(d, "replay_main.o")
    r = subprocess.run(["gcc", "-c", os.path.join(HARNESS, "common", "replay.c"), "-o", ro] + cflags,
                       stdout=subprocess.PIPE, stderr=subprocess.STDOUT, text=True)
    if r.returncode != 0:
        return {"status": "build-failed", "output": r.stdout[-2000:]}
    objs.append(ro)
    link = ["gcc", "-o", exe] + objs + ["-fsanitize=address,undefined", "-Wl,-z,muldefs", "-lm", "-lpthread"]
    r = subprocess.run(link, stdout=subprocess.PIPE, stderr=subprocess.STDOUT, text=True)
    if r.returncode != 0:
        # functions the encoded code cannot reach are not linked under CBMC (--drop-unused-functions); natively they
        # become aborting stubs so that reaching one is visible
        und = sorted(set(re.findall(r"undefined reference to `([A-Za-z_][A-Za-z0-9_]*)'", r.stdout)))
        if not und:
            return {"status": "build-failed", "output": r.stdout[-2000:]}
        sc = os.path.join(d, "unresolved.c")
        with open(sc, "w") as f:
            f.write("#include <stdio.h>\n#include <stdlib.h>\n")
            for u in und:
                f.write('void %s(void) { fprintf(stderr, "REPLAY: unresolved function %s called\\n"); exit(79); }\n' % (u, u))
        so = os.path.join(d, "unresolved.o")
        r = subprocess.run(["gcc", "-c", sc, "-o", so, "-w"], stdout=subprocess.PIPE, stderr=subprocess.STDOUT, text=True)
        if r.returncode != 0:
            return {"status": "build-failed", "output": r.stdout[-2000:]}
        r = subprocess.run(link + [so], stdout=subprocess.PIPE, stderr=subprocess.STDOUT, text=True)
        if r.returncode != 0:
            return {"status": "build-failed", "output": r.stdout[-2000:]}
    inp = os.path.join(d, "inputs.txt")
    with open(inp, "w") as f:
        for k, vals in inputs.items():
            for v in vals:
                f.write("%s %s\n" % (k, v if v else "-"))
    env = dict(os.environ, VERIF_REPLAY_FILE=inp, VERIF_ENTRY=job.entry,
               ASAN_OPTIONS="detect_leaks=0:abort_on_error=0:allocator_may_return_null=1",
               UBSAN_OPTIONS="print_stacktrace=1")
    try:
        r = subprocess.run([exe, job.entry], stdout=subprocess.PIPE, stderr=subprocess.STDOUT, text=True,
                           env=env, timeout=60, errors="replace")
        rc, out = r.returncode, r.stdout
    except subprocess.TimeoutExpired as e:
        rc, out = "timeout", "native replay timed out (60 s)"
    if "REPLAY: assertion failed" in out or "AddressSanitizer" in out or "runtime error:" in out:
        st = "reproduced"
    elif rc == 0:
        st = "not-reproduced"
    elif rc == 77:
        st = "assume-violated"
    else:
        st = "replay-error"
    return {"status": st, "rc": rc, "output": out[-3000:]}


# --------------------------------------------------------------------------
class MemGate:
    """Admission control: the sum of the memory caps of running jobs stays below the budget (no OOM killer)."""
    def __init__(self, budget_gb):
        import threading
        self.budget = budget_gb
        self.used = 0
        self.cv = threading.Condition()

    def acquire(self, gb):
        gb = min(gb, self.budget)
        with self.cv:
            while self.used + gb > self.budget:
                self.cv.wait()
            self.used += gb
        return gb

    def release(self, gb):
        with self.cv:
            self.used -= gb
            self.cv.notify_all()


def _mem_budget_gb():
    try:
        for l in open("/proc/meminfo"):
            if l.startswith("MemAvailable:"):
                return max(8, int(int(l.split()[1]) / (1 << 20) * 0.8))
    except Exception:
        pass
    return 32


MEMGATE = None


def run_job(ctx, job):
    global MEMGATE
    if MEMGATE is None:
        MEMGATE = MemGate(_mem_budget_gb())
    got = MEMGATE.acquire(job.est_gb)
    try:
        return run_job_inner(ctx, job)
    finally:
        MEMGATE.release(got)


def run_job_inner(ctx, job):
    """Runs main query + twin. Returns result dict."""
    res = {"job": job.name, "group": job.group or job.name.split("@")[0], "desc": job.desc, "entry": job.entry, "units": job.units, "bounds": job.bounds,
           "unwind": job.unwind, "unwindset": job.unwindset, "tier": job.tier, "kf": job.kf}
    kf_ex = [k for k, e in ctx.kf.items() if e.get("status") == "known" and e.get("property") == ctx.prop]
    if job.kf:
        kf_ex = [k for k in kf_ex if k != job.kf]
    t0 = time.time()
    try:
        gb, jd = build_job(ctx, job, False, kf_ex)
    except RuntimeError as e:
        res.update(verdict="inconclusive", reason="build: " + str(e)[-1500:], wall=time.time() - t0)
        return res
    outp = os.path.join(jd, "cbmc.json")
    cmd = cbmc_cmd(job, gb)
    rc, _, wall, rss = run_cmd(cmd, job.timeout, job.mem_gb, stdout_path=outp)
    res.update(cmd=" ".join(cmd[2:]), wall=round(wall, 2), rss_mb=rss // 1024)
    if rc == "timeout":
        res.update(verdict="inconclusive", reason="timeout %ds" % job.timeout)
        return res
    pr = parse_cbmc(outp)
    props = pr["props"]
    res["n_props"] = len(props)
    res["n_ok"] = sum(1 for p in props if p.get("status") == "SUCCESS")
    failed = [p for p in props if p.get("status") == "FAILURE"]
    undecided = [p for p in props if p.get("status") not in ("SUCCESS", "FAILURE")]
    if undecided and not failed:      # e.g. UNKNOWN after a solver problem: never a pass
        res.update(verdict="inconclusive", reason="%d obligations undecided (%s)" % (len(undecided), undecided[0].get("status")))
        return res
    res["harness_asserts"] = sorted({p.get("description", "") for p in props
                                     if classify(p) == "assert"})
    funcs = {}
    for p in props:
        sl = p.get("sourceLocation", {})
        fn, fl = sl.get("function"), sl.get("file", "")
        if fn:
            funcs[fn] = fl
    res["functions"] = sorted(f for f, fl in funcs.items() if fl.startswith(REPO))
    if pr["status"] == "error" or (not props):
        res.update(verdict="inconclusive", reason="cbmc error rc=%s: %s" % (rc, (pr.get("error") or "; ".join(pr.get("errors", [])))[-800:]))
        return res
    if failed:
        fl = [{"property": p.get("property"), "desc": p.get("description"), "class": classify(p),
               "file": p.get("sourceLocation", {}).get("file"), "line": p.get("sourceLocation", {}).get("line"),
               "function": p.get("sourceLocation", {}).get("function")} for p in failed]
        res["failed"] = fl
        classes = {f["class"] for f in fl}
        real = [f for f in fl if f["class"] in ("assert", "memsafety", "ptr-overflow") or
                (f["class"] == "unwind" and job.termination)]
        if not real:
            res.update(verdict="inconclusive",
                       reason="only %s failures: %s" % (",".join(sorted(classes)), "; ".join(
                           "%s [%s %s:%s]" % (f["desc"], f["property"], os.path.basename(f["file"] or "?"), f["line"]) for f in fl[:4])))
            return res
        # prefer a harness assertion for the trace
        real.sort(key=lambda f: {"assert": 0, "memsafety": 1, "unwind": 2, "ptr-overflow": 3}[f["class"]])
        pick = real[0]
        res["picked"] = pick
        tr = os.path.join(jd, "trace.json")
        cmd2 = cbmc_cmd(job, gb, ["--trace", "--property", pick["property"]])
        rc2, _, w2, _ = run_cmd(cmd2, job.timeout, job.mem_gb, stdout_path=tr)
        inputs, excerpt = {}, []
        if rc2 != "timeout":
            try:
                for e in json.load(open(tr)):
                    for r in e.get("result", []) if isinstance(e, dict) else []:
                        if r.get("status") == "FAILURE" and "trace" in r:
                            inputs = extract_inputs(r["trace"])
                            excerpt = trace_excerpt(r["trace"])
            except Exception as ex:
                excerpt = ["trace unparsable: %s" % ex]
        res["inputs"] = inputs
        res["trace_excerpt"] = excerpt
        res["replay"] = native_replay(ctx, job, jd, inputs, kf_ex)
        res["verdict"] = "fail"
        return res
    res["verdict"] = "pass"
    # vacuity twin
    if job.witness:
        try:
            gbw, jdw = build_job(ctx, job, True, kf_ex)
        except RuntimeError as e:
            res.update(verdict="inconclusive", reason="twin build: " + str(e)[-800:])
            return res
        outw = os.path.join(jdw, "cbmc.json")
        jw = job
        cmdw = cbmc_cmd(jw, gbw)
        rcw, _, ww, _ = run_cmd(cmdw, job.timeout, job.mem_gb, stdout_path=outw)
        res["twin_wall"] = round(ww, 2)
        if rcw == "timeout":
            res.update(verdict="inconclusive", reason="twin timeout")
            return res
        pw = parse_cbmc(outw)
        wprops = [p for p in pw["props"] if classify(p) == "witness"]
        res["twin"] = {p.get("description"): p.get("status") for p in wprops}
        # at least one reachability witness must be violated (= reachable)
        if not any(p.get("status") == "FAILURE" for p in wprops):
            if job.witness_violation and wprops:
                res["verdict"] = "fail"
                res["picked"] = {"property": "witness", "desc": job.witness_violation, "class": "liveness",
                                 "file": job.harness, "line": None, "function": job.entry}
                res["failed"] = [res["picked"]]
                res["inputs"] = {}
                res["replay"] = {"status": "unavailable", "output": "reachability obligation: the solver proved that no execution reaches the witness"}
            else:
                res.update(verdict="inconclusive", reason="vacuity twin did not fail: %s" % res["twin"])
    return res


def write_replay_file(prop, res):
    d = os.path.join(OUT, "replays")
    os.makedirs(d, exist_ok=True)
    path = os.path.join(d, "%s-%s.json" % (prop, re.sub(r"[^A-Za-z0-9_.-]", "_", res["job"])))
    rp = res.get("replay", {})
    cls = res.get("picked", {}).get("class")
    doc = {"property": prop, "job": res["job"], "desc": res.get("desc"), "entry": res.get("entry"),
           "failed_obligation": res.get("picked"), "all_failed": res.get("failed", [])[:40],
           "inputs": res.get("inputs"), "trace_excerpt": res.get("trace_excerpt"),
           "native_replay": rp,
           "class": ("confirmed-native" if rp.get("status") == "reproduced" else
                     "solver-only (%s; native: %s)" % (cls, rp.get("status"))),
           "rerun": "bin/check %s --jobs '%s' --keep" % (prop, res["job"])}
    json.dump(doc, open(path, "w"), indent=1)
    return path


def kf_matches(entry, res):
    """A failing job matches a known-finding entry iff job name pattern and failed obligation text match."""
    if not re.fullmatch(entry.get("job", ".*"), res["job"]):
        return False
    pat = entry.get("obligation")
    if pat:
        return all(re.search(pat, (f.get("desc") or "")) or f["class"] in ("no-body",)
                   for f in res.get("failed", []) if f["class"] in ("assert", "memsafety", "unwind"))
    return True


def run_check(prop, tier, jobs, meta, jobfilter=None, keep=False, workers=None):
    global MEMGATE
    MEMGATE = MemGate(_mem_budget_gb())
    import signal
    try:
        signal.signal(signal.SIGTERM, _kill_children)
        signal.signal(signal.SIGINT, _kill_children)
    except ValueError:
        pass
    seed = int(os.environ.get("VERIF_SEED", "0") or 0)
    ctx = Ctx(prop, tier, keep)
    t0 = time.time()
    results = []
    exitcode = 0
    try:
        ctx.configure()
        sel = [j for j in jobs if (tier == "thorough" or j.tier == "quick")]
        if jobfilter:
            sel = [j for j in sel if re.search(jobfilter, j.name)]
        # known-finding companions only run while status == known
        sel = [j for j in sel if not j.kf or ctx.kf.get(j.kf, {}).get("status") == "known"]
        # precompile units serially-ish (cache is not thread safe for same key)
        need = {}
        for j in sel:
            for u in j.units:
                need[(u, tuple(j.unit_defines), json.dumps(j.cfg_patch, sort_keys=True))] = (u, j.unit_defines, j.cfg_patch)
        with cf.ThreadPoolExecutor(max_workers=16) as ex:
            futs = [ex.submit(ctx.compile_unit, u, d, p) for (u, d, p) in need.values()]
            errs = []
            for f in futs:
                try:
                    f.result()
                except RuntimeError as e:
                    errs.append(str(e))
        if errs:
            print("BUILD-ERROR: %s" % errs[0][-2000:])
            results.append({"job": "(build)", "verdict": "inconclusive", "reason": errs[0][-1500:]})
            sel = []
        nw = workers or int(os.environ.get("VERIF_WORKERS", "0") or 0) or max(1, min(16, (os.cpu_count() or 4)))
        with cf.ThreadPoolExecutor(max_workers=nw) as ex:
            futs = {ex.submit(run_job, ctx, j): j for j in sel}
            for f in cf.as_completed(futs):
                j = futs[f]
                try:
                    r = f.result()
                except Exception as e:  # machinery error: inconclusive, never success
                    r = {"job": j.name, "verdict": "inconclusive", "reason": "driver exception: %r" % e}
                results.append(r)
                sys.stderr.write("[%s] %-40s %-12s %6.1fs %s\n" % (prop, r["job"], r["verdict"], r.get("wall", 0),
                                                                  r.get("reason", "") [:160]))
        results.sort(key=lambda r: r["job"])
        violations, known_lines, inconcl = [], [], []
        for r in results:
            j = next((x for x in sel if x.name == r["job"]), None)
            if r["verdict"] == "fail":
                ent = ctx.kf.get(j.kf) if (j and j.kf) else None
                if ent and ent.get("status") == "known" and kf_matches(ent, r):
                    known_lines.append("KNOWN-FINDING: property=%s %s [%s]" % (prop, ent["text"], ent["id"]))
                    r["verdict"] = "known-finding"
                else:
                    path = write_replay_file(prop, r)
                    r["replay_path"] = path
                    violations.append((r, path))
            elif r["verdict"] == "inconclusive":
                inconcl.append(r)
            elif r["verdict"] == "pass" and j and j.kf:
                r["note"] = "known finding %s no longer reproduces" % j.kf
        for l in known_lines:
            print(l)
        for r, path in violations:
            pk = r.get("picked", {})
            print("VIOLATION property=%s replay=%s" % (prop, path))
            print("  job=%s obligation=%s (%s:%s) class=%s native=%s" % (
                r["job"], pk.get("desc"), os.path.basename(pk.get("file") or "?"), pk.get("line"), pk.get("class"),
                r.get("replay", {}).get("status")))
        for r in inconcl:
            print("INCONCLUSIVE property=%s job=%s reason=%s" % (prop, r["job"], r.get("reason", "")[:300]))
        if violations:
            exitcode = 1
        elif inconcl:
            exitcode = 2
        write_evidence(prop, tier, seed, results, meta, time.time() - t0, len(violations), ctx, partial=bool(jobfilter))
        print("%s tier=%s jobs=%d pass=%d known=%d violations=%d inconclusive=%d wall=%.0fs" % (
            prop, tier, len(results), sum(1 for r in results if r["verdict"] == "pass"), len(known_lines),
            len(violations), len(inconcl), time.time() - t0))
    finally:
        ctx.cleanup()
    return exitcode


def write_evidence(prop, tier, seed, results, meta, wall, nviol, ctx, partial=False):
    # a run restricted with --jobs is a development aid: its (partial) evidence never replaces the full check's file
    evdir = os.path.join(OUT, "evidence-partial" if partial else "evidence")
    os.makedirs(evdir, exist_ok=True)
    decided = [r for r in results if r["verdict"] in ("pass", "known-finding", "fail")]
    queries = sum(1 + (1 if "twin" in r else 0) + (1 if r["verdict"] in ("fail", "known-finding") else 0) for r in decided)
    hasserts = set()
    funcs = set()
    for r in decided:
        for a in r.get("harness_asserts", []):
            hasserts.add((r.get("group") or r["job"].split("@")[0], a))
        funcs.update(r.get("functions", []))
    samples = []
    for r in results[:6]:
        samples.append({"job": r["job"], "what": r.get("desc"), "verdict": r["verdict"], "bounds": r.get("bounds"),
                        "obligations": r.get("n_props"), "harness_assertions": r.get("harness_asserts", [])[:8],
                        "solver_wall_s": r.get("wall")})
    ev = {
        "property_id": prop, "tier": tier, "seed": seed, "level": "model_checking",
        "coverage": {
            "evaluations": max(queries, 0),
            "distinct_nontrivial": len(hasserts),
            "rule": "evaluations = CBMC/SAT queries run to a verdict (main query, its vacuity twin, trace re-run); "
                    "distinct_nontrivial = distinct (job family, harness-level assertion text) pairs that were reached "
                    "(vacuity twin FAILED as required) and decided; CBMC's auto-generated pointer/overflow/unwinding "
                    "obligations are counted separately under obligations/discharged",
            "samples": samples,
            "obligations": sum(r.get("n_props", 0) for r in decided),
            "discharged": sum(r.get("n_ok", 0) for r in decided),
            "jobs": [{k: r.get(k) for k in ("job", "verdict", "reason", "wall", "rss_mb", "n_props", "n_ok", "unwind",
                                             "unwindset", "bounds", "units", "twin", "twin_wall", "note", "replay_path")
                      if r.get(k) is not None} for r in results],
            "functions_encoded": sorted(funcs),
            "units": sorted({u for r in results for u in (r.get("units") or [])}),
            "solver_time_s": round(sum(r.get("wall", 0) + r.get("twin_wall", 0) for r in results), 1),
            "vacuity_twins": {"run": sum(1 for r in results if "twin" in r),
                              "failed_as_required": sum(1 for r in results if "twin" in r and r["verdict"] == "pass")},
            "inconclusive": [{"job": r["job"], "reason": r.get("reason")} for r in results if r["verdict"] == "inconclusive"],
            "known_findings_reported": [r["job"] for r in results if r["verdict"] == "known-finding"],
            "bounds": meta.get("bounds", ""),
            "outside_claim": meta.get("outside", ""),
            "checker_cmd": "bin/check %s --tier %s" % (prop, tier),
            "engine": "cbmc 6.11.0 (SAT back end) on goto-cc output of /repo/src at the current working tree",
            "exhaustive": False,
        },
        "assumptions": meta.get("assumptions", []),
        "wall_s": round(wall, 1),
        "violations": nviol,
    }
    if ev["coverage"]["evaluations"] < 1:
        ev["coverage"]["evaluations"] = 0
    json.dump(ev, open(os.path.join(evdir, prop + ".json"), "w"), indent=1)
