from verif.core import Job

UNITS = ["coap_net.c", "coap_session.c", "coap_pdu.c", "coap_option.c", "coap_encode.c", "coap_io.c", "coap_resource.c",
         "coap_async.c", "coap_str.c", "coap_subscribe.c", "coap_block.c", "coap_cache.c", "coap_proxy.c", "coap_layers.c", "coap_threadsafe.c"]
EXTRA = ["common/env.c", "ref/ref_codec.c"]
# the receive buffer of coap_read_session is shrunk (it is #ifndef-configurable) so that its bytes stay field-sensitive
UD = ["LIBCOAP_VERIF_NO_PARSE_DUMP", "COAP_RXBUFFER_SIZE=320"]
FS = ["--max-field-sensitivity-array-size", "300"]

META = {
    "bounds": "TCP reader coap_read_session: for each message shape (length form x token form, listed in jobs/C05.py) and "
              "every pair (k, c) - k bytes delivered in a first read, c in a second, k+c up to the end of a following 2-byte "
              "message - the two-read run equals the one-read run (delivered messages, order, bytes, reader state), and the "
              "one-read run equals the reference decoding of the stream. Quick: shapes T=2,7 with all (k,c), T=16/17 with "
              "selected cuts; thorough: all (k,c) for T<=17 plus long shapes (16-bit length form, 2-byte token extension) "
              "with cuts around every boundary; oversize declarations. All non-steering bytes symbolic. WebSocket frame reader coap_ws_read: one call "
              "from every reader state (k bytes of the frame consumed) with every chunk length c (up to 3 bytes of the next frame), for frames "
              "with payload 1, 2, 5 (quick) / 9 and 3 bytes in the 16-bit and 64-bit length forms (thorough), masked and unmasked; mask key, payload, next-frame bytes "
              "and the stale data_ofs symbolic; 64-bit length declarations above the receive buffer (bit 63 set, all ones, datalen+1, 2^56).",
    "outside": "WebSocket: HTTP handshake splitter, zero-length frames (not a CoAP message; the reader stalls on them - noted in DESIGN 9.5), control frames, "
               "and how coap_read_session keeps the caller buffer between two calls (the harness keeps it); TLS record layer; streams of more than two "
               "messages; arbitrary message sizes (the shapes are enumerated)",
    "assumptions": ["coap_dispatch and coap_session_disconnected_lkd are recording stubs (what reaches the protocol layer is the subject)",
                    "l_read hands out exactly the chunk sizes of the job; induction over the number of reads is by the step equality read(k);read(c) == read(k+c)"],
}

# name, first byte, ext length bytes, token ext bytes, H, TE, TOK, BODY
SHAPES = {
    "len0-tkl0": (0x00, [], [], 2, 0, 0, 0),
    "len3-tkl2": (0x32, [], [], 2, 0, 2, 3),
    "len8f-tkl0": (0xD0, [0x00], [], 3, 0, 0, 13),
    "len1-tkl13": (0x1D, [], [0x00], 2, 1, 13, 1),
    "len16f-tkl1": (0xE1, [0x00, 0x00], [], 4, 0, 1, 269),
    "len2-tkl14": (0x2E, [], [0x00, 0x00], 2, 2, 269, 2),
}
OVERSIZE = {
    # declared size >= 4 GiB: must not wrap in 32-bit arithmetic
    "len32f-wrap": (0xF0, [0xFF, 0xFF, 0xFF, 0xFF], [], 6, 0, 0, 0),
    # 32-bit form: declared 65805 + 0x00800000 > COAP_DEFAULT_MAX_PDU_RX_SIZE (8 MiB + 256)
    "len32f-over": (0xF0, [0x00, 0x80, 0x00, 0x00], [], 6, 0, 0, 0),
    "len32f-over-tkl13": (0xFD, [0x7f, 0xff, 0xff, 0xff], [0x05], 6, 1, 0, 0),
}


def defs(sh, k, c, oversize=False):
    first, ext, text, H, TE, TOK, BODY = sh
    T = H + TE + TOK + BODY
    d = ["T=%d" % T, "H=%d" % H, "TE=%d" % TE, "FIRST=%d" % first, "KK=%d" % k, "CC=%d" % c]
    d += ["EXT%d=%d" % (i, b) for i, b in enumerate(ext)]
    d += ["TEXT%d=%d" % (i, b) for i, b in enumerate(text)]
    if oversize:
        d.append("OVERSIZE")
    elif BODY >= 8:
        d.append("MARKER_AT=%d" % (H + TE + TOK))
    return d, T


def jobs():
    js = []

    def mk(sn, sh, k, c, tier, oversize=False, rxbuf=None):
        d, T = defs(sh, k, c, oversize)
        ud = UD if rxbuf is None else [UD[0], "COAP_RXBUFFER_SIZE=%d" % rxbuf]
        js.append(Job("S1-tcp@%s-k%d-c%d%s" % (sn, k, c, "" if rxbuf is None else "-rxbuf%d" % rxbuf), "C05/c05.c", "c05_s1_tcp_step", UNITS, extra_src=EXTRA, unit_defines=ud,
                      defines=d, remove_bodies=["coap_dispatch", "coap_session_disconnected_lkd"], unwind=T + 12, tier=tier,
                      group="S1-tcp@" + sn, flags=["--max-field-sensitivity-array-size", "400" if T < 100 else "1400"], timeout=900,
                      desc="TCP reader, shape %s (T=%d): read(%d);read(%d) == read(%d) == reference" % (sn, T, k, c, k + c),
                      bounds={"shape": sn, "T": T, "k": k, "c": c}))
    for sn in ("len0-tkl0", "len3-tkl2"):
        sh = SHAPES[sn]
        T = sh[3] + sh[4] + sh[5] + sh[6]
        for k in range(0, T + 2):
            for c in range(1, T + 2 - k + 1):
                quick = sn == "len0-tkl0" or (k in (0, 1, 3, 5) and c in (1, 2, T - k, T + 2 - k))
                mk(sn, sh, k, c, "quick" if quick else "thorough")
    # reads that return exactly the receive buffer size (the reader must read again): 8-byte receive buffer
    for (k, c) in ((0, 9), (0, 8), (1, 8), (3, 6), (0, 7)):
        mk("len3-tkl2", SHAPES["len3-tkl2"], k, c, "quick", rxbuf=8)
    for sn in ("len8f-tkl0", "len1-tkl13"):
        sh = SHAPES[sn]
        T = sh[3] + sh[4] + sh[5] + sh[6]
        for k in range(0, T + 2):
            for c in range(1, T + 2 - k + 1):
                quick = k in (1, 2) and c in (1, 2, T + 2 - k)
                mk(sn, sh, k, c, "quick" if quick else "thorough")
    for sn in ("len16f-tkl1", "len2-tkl14"):
        sh = SHAPES[sn]
        H, TE = sh[3], sh[4]
        T = sh[3] + sh[4] + sh[5] + sh[6]
        ks = sorted(set(list(range(0, H + TE + 2)) + [T - 2, T - 1, T, T + 1]))
        for k in ks:
            for c in sorted(set([1, 2, 3, H + TE, T - k - 1, T - k, T - k + 1, T + 2 - k])):
                if c >= 1 and k + c <= T + 2:
                    mk(sn, sh, k, c, "thorough")
    for sn, sh in OVERSIZE.items():
        H, TE = sh[3], sh[4]
        for k in range(0, H + TE):
            for c in range(1, H + TE + 2 - k + 1):
                if k + c <= H + TE + 2:
                    quick = sn in ("len32f-over", "len32f-wrap") and k in (1, 5) and c in (1, H - k)
                    mk(sn, sh, k, c, "quick" if quick else "thorough", True)
    # WebSocket frame reader: one coap_ws_read() call from every reader state, per frame shape all (k, c) pairs inside one query
    wsu = ["coap_ws.c", "coap_threadsafe.c"]
    for plen, lform, masked, tier in ((1, 0, 1, "quick"), (2, 0, 1, "quick"), (2, 0, 0, "quick"), (5, 0, 1, "quick"), (9, 0, 1, "thorough"), (3, 1, 1, "thorough"),
                                      (3, 2, 0, "thorough")):    # (126, 16-bit form): 135 x 130 (k, c) pairs in one query - no verdict in 1500 s, not registered
        t = 2 + (0, 2, 8)[lform] + (4 if masked else 0) + plen
        js.append(Job("S3-ws-step@p%d-%s-%s" % (plen, ("len7", "len16", "len64")[lform], "masked" if masked else "unmasked"), "C05/c05w.c", "c05_s3_ws_step",
                      wsu, extra_src=["common/env.c"], defines=["PLEN=%d" % plen, "LFORM=%d" % lform, "MASKED=%d" % masked, "DATALEN=%d" % (200 if plen > 30 else 40), "ENV_LOG_QUIET"],
                      remove_bodies=["coap_ws_close"], unwind=(212 if plen > 30 else 52), flags=FS, group="S3-ws-step", tier=tier, object_bits=13, timeout=1500, est_gb=4,
                      desc="coap_ws_read one call from every reader state: frame payload %d bytes, %s, every (k, c)" % (plen, ("7-bit", "16-bit", "64-bit")[lform] + " length"),
                      bounds={"payload": plen, "length_form": lform, "masked": masked, "k": "0..%d" % (t - 1), "c": "1..T-k+3"}))
    for hi, lo, nm in ((0x80, 0x10, "bit63"), (0xff, 0xff, "all-ones-top"), (0x00, 41, "datalen+1"), (0x01, 0x00, "2^56")):
        js.append(Job("S3-ws-oversize@%s" % nm, "C05/c05w.c", "c05_s3_ws_oversize", wsu, extra_src=["common/env.c"],
                      defines=["OVER_HI=%d" % hi, "OVER_LO=%d" % lo, "DATALEN=40", "ENV_LOG_QUIET"], remove_bodies=["coap_ws_close"], unwind=60, flags=FS,
                      group="S3-ws-oversize", timeout=600, est_gb=3,
                      desc="coap_ws_read: 64-bit length declaration %s larger than the receive buffer closes with 1009, nothing read" % nm,
                      bounds={"declared_length_top_byte": hi, "low_byte": lo}))
    return js
