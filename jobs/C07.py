from verif.core import Job

UNITS = ["coap_net.c", "coap_session.c", "coap_pdu.c", "coap_option.c", "coap_encode.c", "coap_io.c", "coap_resource.c",
         "coap_async.c", "coap_str.c", "coap_subscribe.c", "coap_block.c", "coap_cache.c", "coap_proxy.c", "coap_layers.c", "coap_threadsafe.c",
         "coap_uri.c", "coap_address.c"]
EXTRA = ["common/env.c"]
FS = ["--max-field-sensitivity-array-size", "300"]
# cuts (see harness/common/unreach.h): bodies removed, entering one is a failed obligation
CUT_CLIENT = ["UNREACH_HANDLE_REQUEST", "UNREACH_SIGNALING", "UNREACH_BLOCK_CLIENT", "UNREACH_LG_CRCV", "UNREACH_OSCORE", "UNREACH_SESSION_FREE"]
RB_CLIENT = ["__CPROVER_file_local_coap_net_c_handle_request", "__CPROVER_file_local_coap_net_c_handle_signaling",
             "coap_block_new_lg_crcv", "coap_handle_response_send_block", "coap_handle_response_get_block",
             "coap_session_free", "coap_proxy_remove_association"]
TYPES = {"con": 0, "non": 1, "ack": 2, "rst": 3}
NODES = {0: "nonode", 1: "same-mid", 2: "same-token", 3: "unrelated", 4: "same-mid-other-token"}

META = {
    "bounds": "one delivery through the real coap_dispatch/handle_response on a client UDP session from an arbitrary "
              "deduplication state (last_con_mid, last_ack_mid, stored verdict), response type CON/NON/ACK (code 2.05) or empty "
              "ACK/RST, symbolic mid/token/handler verdict/clock, send queue holding no request / the request with the same mid / "
              "with the same token only / an unrelated one; plus the same datagram delivered twice; S5: coap_remove_from_queue over an arbitrary 1-2 (t: 3) node "
              "queue with symbolic mids/sessions; S6: server side, a CON/NON request dispatched again while its async entry is pending (delay 0, future deadline) "
              "or expired, symbolic clock/deadline/mid/token.",
    "outside": "more than one outstanding exchange per session; block-wise and OSCORE exchanges; responses other than code 2.05 "
               "(the code only selects the class); network delays >= ACK_TIMEOUT (excluded by the property); the application-driven part of a "
               "separate response and coap_check_async",
    "assumptions": ["l_write, response/nack/event handlers, clock are harness stubs; send queue has <= 1 node",
                    "block_mode = 0 (application handles blocks), no OSCORE, no proxy"],
}


def cuts(real_lg_crcv=False):
    """(defines, remove_bodies): an empty ACK for a queued request legitimately creates client block state (lg_crcv)"""
    if not real_lg_crcv:
        return CUT_CLIENT, RB_CLIENT
    return [c for c in CUT_CLIENT if c != "UNREACH_LG_CRCV"], [r for r in RB_CLIENT if r != "coap_block_new_lg_crcv"]


def jobs():
    js = []
    for tn in ("con", "non", "ack"):
        for node in (0, 1, 2, 3, 4):
            if node == 4 and tn == "ack":
                continue
            js.append(Job("S1-response@%s-%s" % (tn, NODES[node]), "C07/c07.c", "c07_s1_response", UNITS, extra_src=EXTRA,
                          defines=["RTYPE=%d" % TYPES[tn], "RCODE=0x45", "NODE=%d" % node] + CUT_CLIENT, remove_bodies=RB_CLIENT, unwind=18, flags=FS, group="S1-response",
                          timeout=900, est_gb=3,
                          desc="%s response (2.05), queue: %s: handler once/dedup, ACK/RST rule, request cancelled" % (tn.upper(), NODES[node]),
                          bounds={"type": tn, "queue": NODES[node]}))
    for tn in ("ack", "rst"):
        for node in (0, 1, 2, 3):
            js.append(Job("S1-empty@%s-%s" % (tn, NODES[node]), "C07/c07.c", "c07_s1_response", UNITS, extra_src=EXTRA,
                          defines=["RTYPE=%d" % TYPES[tn], "RCODE=0", "NODE=%d" % node] + cuts(tn == "ack" and node == 1)[0],
                          remove_bodies=cuts(tn == "ack" and node == 1)[1], unwind=18, flags=FS, group="S1-empty",
                          timeout=900, est_gb=3,
                          desc="empty %s, queue: %s: stops exactly the matching request, one NACK for RST" % (tn.upper(), NODES[node]),
                          bounds={"type": tn, "queue": NODES[node]}))
    for tn in ("con", "non", "ack"):
        js.append(Job("S2-twice@%s" % tn, "C07/c07.c", "c07_s2_twice", UNITS, extra_src=EXTRA, defines=["RTYPE=%d" % TYPES[tn]] + CUT_CLIENT, remove_bodies=RB_CLIENT,
                      unwind=18, flags=FS, group="S2-twice", timeout=900, est_gb=3,
                      desc="same %s response datagram delivered twice" % tn.upper(), bounds={"type": tn}))
    # server side of a separate response: a duplicate of the request while the async entry is pending (C10's dispatch harness)
    from jobs.C10 import CUT as C10_CUT, RB as C10_RB
    for tn, tv in (("con", 0), ("non", 1)):
        for kind, kn in ((0, "indefinite"), (1, "future"), (2, "expired")):
            js.append(Job("S6-async-duplicate@%s-%s" % (tn, kn), "C10/c10.c", "c10_s4_async_dup", UNITS, extra_src=EXTRA,
                          defines=["QTYPE=%d" % tv, "ASYNC_KIND=%d" % kind, "METHOD=1", "PATH=1", "EXTRA=0", "TABLE=0", "EXPECT=205", "ENV_LOG_QUIET"] + C10_CUT,
                          remove_bodies=C10_RB, unwind=34, flags=FS, group="S6-async-duplicate", timeout=900, est_gb=3,
                          desc="%s request seen again while its separate response is pending (async delay %s): not passed to the handler twice" % (tn.upper(), kn),
                          bounds={"type": tn, "async delay": kn}))
    # an ACK/RST stops "exactly the matching request": the queue search itself (coap_remove_from_queue, first entry with BOTH the session and the
    # message id) is the C06 step harness over an arbitrary 1-2 node queue with symbolic mids and sessions
    import copy
    from jobs.C06 import jobs as c06_jobs
    for j in c06_jobs():
        if j.name.startswith("S4-remove@"):
            j2 = copy.copy(j)
            j2.name = "S5-queue-" + j.name
            j2.group = "S5-queue-remove"
            js.append(j2)
    return js
