from verif.core import Job

UNITS = ["coap_pdu.c", "coap_option.c", "coap_encode.c"]
EXTRA = ["common/env.c", "ref/ref_codec.c"]
UD = ["LIBCOAP_VERIF_NO_PARSE_DUMP"]
PROTOS = {"udp": 1, "tcp": 3, "ws": 5}

META = {
    "bounds": "L1: every delta 0..65535 x length 0..65804 x maxlen; L2: every type/code/mid, token length 0..65804, body "
              "size 0..8MiB+256 per transport (all four TCP length forms, both RFC 8974 forms); L2t: coap_add_token for "
              "token lengths {0,1,8,12,13,14,268,269,270,65804} with symbolic bytes; B1: K<=3 options with numbers and "
              "value lengths from the listed catalogue in every listed insertion order, token lengths {0,1,8,13}, payload "
              "{0,1,3}, all bytes and type/code/mid symbolic; B1r: max_size exhaustion.",
    "outside": "more than 3 options; option numbers/lengths not in the catalogue for whole-message round trips (L1 covers "
               "every number/length for the option header itself); payloads > 3 bytes (memcpy only)",
    "assumptions": [
        "reference encoder/decoder harness/ref/ref_codec.c is the oracle for well-formedness",
        "coap_log_impl stubbed empty, log level arbitrary; allocator never fails (C18 covers failure)",
        "signalling codes 7.xx excluded from B1 (own option tables, see C03)",
    ],
}

# (insertion order of (number, length)) shapes; numbers chosen on both sides of the 13/269 delta boundaries
SHAPES_Q = [
    [],
    [(11, 1)],
    [(11, 0), (11, 3)],                 # repeatable, equal numbers keep insertion order
    [(12, 1), (12, 2)],                 # Content-Format twice: second refused
    [(15, 3), (11, 2)],                 # out of order: insert path
    [(11, 1), (24, 0), (12, 2)],        # delta 13 boundary (11 -> 24 = 13)
    [(280, 1), (11, 13), (1, 8)],       # 269 boundary, reverse order, value length 13
    [(65535, 0), (0, 1), (269, 12)],
    [(35, 5), (11, 1)],                 # Proxy-Uri: implicit Hop-Limit on requests
    [(60, 4), (14, 4), (14, 1)],        # Max-Age twice (second may be refused)
    [(11, 12), (11, 13), (11, 14)],
    [(3, 1), (7, 2), (15, 1)],
]
SHAPES_T = [
    [(2049, 268)], [(2049, 269)], [(2049, 270)],
    [(2051, 269), (8, 255), (20, 13)],
    [(537, 1), (268, 2), (1, 3)],
    [(538, 0), (269, 0), (0, 0)],
    [(281, 1), (12, 1), (282, 1)],
    [(39, 3), (3, 2), (16, 1)],         # Proxy-Scheme with explicit Hop-Limit added later -> refused repeat
    [(16, 1), (39, 3), (35, 2)],
    [(258, 1), (258, 1)],               # No-Response twice
    [(2000, 5), (2000, 5), (2000, 0)],  # unknown number: repeatable by default
    [(6, 3), (23, 3), (27, 3)],
    [(4, 8), (4, 1), (1, 0)],
    [(65000, 14), (300, 14), (13, 14)],
    [(2052, 14), (2052, 12), (2052, 13)],
]


def shape_defs(shape):
    d = ["K=%d" % len(shape)]
    for i, (n, l) in enumerate(shape, 1):
        d += ["NUM%d=%d" % (i, n), "LEN%d=%d" % (i, l)]
    return d


def shape_name(shape):
    return "_".join("%d.%d" % x for x in shape) or "none"


def jobs():
    js = []
    js.append(Job("L1-opt-header", "C01/c01.c", "c01_l1_opt_header", UNITS, extra_src=EXTRA, unit_defines=UD, unwind=9,
                  desc="coap_opt_setheader/encode_size/parse round trip == minimal reference encoding; every delta, length, maxlen",
                  bounds={"delta": "0..65535", "length": "0..65804", "maxlen": "0..8"}))
    js.append(Job("L1-opt-encode", "C01/c01.c", "c01_l1_opt_encode", UNITS, extra_src=EXTRA, unit_defines=UD, unwind=2,
                  desc="coap_opt_encode size/refusal for every delta, length, maxlen<=70000",
                  bounds={"delta": "0..65535", "length": "0..65804", "maxlen": "0..70000"}))
    for pn, pv in PROTOS.items():
        forms = [("", 0, 8 * 1024 * 1024 + 256)] if pn != "tcp" else [("-len0", 0, 12), ("-len8", 13, 268), ("-len16", 269, 65804), ("-len32", 65805, 8 * 1024 * 1024 + 256)]
        for fn, lo, hi in forms:
            js.append(Job("L2-msg-header@%s%s" % (pn, fn), "C01/c01.c", "c01_l2_msg_header", UNITS, extra_src=EXTRA, unit_defines=UD,
                          defines=["PROTO=%d" % pv, "BODY_LO=%d" % lo, "BODY_HI=%d" % hi], unwind=7, timeout=900, group="L2-msg-header",
                          desc="coap_pdu_encode_header == reference and parse_header_size/parse_size/parse_header invert it (%s, body %d..%d)" % (pn, lo, hi),
                          bounds={"tkl": "0..65804", "body": "%d..%d" % (lo, hi), "proto": pn}))
    for tkl in [0, 1, 8, 12, 13, 14, 268, 269, 270, 65804]:
        js.append(Job("L2t-add-token@%d" % tkl, "C01/c01.c", "c01_l2t_add_token", UNITS, extra_src=EXTRA, unit_defines=UD,
                      defines=["TKL=%d" % tkl], unwind=3, unwindset={"coap_pdu_check_resize.0": 12},
                      tier="quick" if tkl <= 270 else "thorough", group="L2t-add-token",
                      desc="coap_add_token with a %d-byte symbolic token" % tkl, bounds={"tkl": tkl}))
    # B1 round trips
    def b1(shape, proto, tkl, pl, tier, extra=()):
        pv = PROTOS[proto]
        name = "B1-roundtrip@%s-t%d-p%d-%s%s" % (proto, tkl, pl, shape_name(shape), "".join("-" + e for e in extra))
        return Job(name, "C01/c01.c", "c01_b1_roundtrip", UNITS, extra_src=EXTRA, unit_defines=UD,
                   defines=["PROTO=%d" % pv, "TKL=%d" % tkl, "PL=%d" % pl] + shape_defs(shape) + list(extra),
                   unwind=12, tier=tier, group="B1-roundtrip",
                   flags=["--max-field-sensitivity-array-size", "300" if sum(l for _, l in shape) + tkl + pl < 200 else "1400"],
                   desc="build(%s, token %d, payload %d) -> encode(%s) -> ref_decode and coap_pdu_parse -> same message" % (shape, tkl, pl, proto),
                   bounds={"shape": shape, "proto": proto, "tkl": tkl, "payload": pl}, timeout=600)
    combos_q = [("udp", 0, 0), ("udp", 8, 1), ("tcp", 1, 3), ("ws", 13, 1)]
    for i, sh in enumerate(SHAPES_Q):
        pn, tkl, pl = combos_q[i % len(combos_q)]
        js.append(b1(sh, pn, tkl, pl, "quick"))
    # proxy shape once as request and once as response
    js.append(b1([(35, 5), (11, 1)], "udp", 1, 0, "quick", ["CODE=1"]))      # GET: implicit Hop-Limit
    js.append(b1([(39, 4), (3, 2), (16, 1)], "tcp", 0, 1, "quick", ["CODE=2"]))  # POST: Hop-Limit added explicitly later -> repeat
    js.append(b1([(11, 1), (15, 2)], "ws", 8, 1, "quick", ["CODE=3"]))
    for sh in SHAPES_Q + SHAPES_T:
        for (pn, tkl, pl) in [("udp", 0, 0), ("udp", 8, 1), ("udp", 13, 3), ("tcp", 1, 3), ("tcp", 13, 0), ("ws", 13, 1), ("ws", 0, 3), ("tcp", 8, 1)]:
            j = b1(sh, pn, tkl, pl, "thorough")
            if not any(x.name == j.name for x in js):
                js.append(j)
    # B1r: max_size exhaustion
    for (n1, l1, n2, l2, ms, tkl, refuse) in [(11, 3, 15, 4, 11, 2, False), (11, 3, 15, 4, 10, 2, True), (11, 3, 300, 1, 9, 2, True),
                                             (11, 3, 300, 1, 10, 2, False), (1, 8, 1, 8, 17, 0, True), (1, 8, 1, 8, 18, 0, False)]:
        js.append(Job("B1r-space@%d.%d_%d.%d-max%d" % (n1, l1, n2, l2, ms), "C01/c01.c", "c01_b1_refuse_space", UNITS,
                      extra_src=EXTRA, unit_defines=UD, group="B1r-space",
                      defines=["TKL=%d" % tkl, "NUM1=%d" % n1, "LEN1=%d" % l1, "NUM2=%d" % n2, "LEN2=%d" % l2, "MAXSIZE=%d" % ms]
                              + (["WIT_REFUSE"] if refuse else []),
                      flags=["--max-field-sensitivity-array-size", "300"],
                      unwind=12, desc="second option %s when max_size=%d: message unchanged on refusal" % ("refused" if refuse else "fits", ms),
                      bounds={"max_size": ms}))
    # "parsing those bytes yields exactly the same message" also needs the parser's per-option length table to admit every value the
    # building API admits (RFC 7252 5.10): that table is decided for every option number and length by the C03 option-step jobs
    import copy
    from jobs.C03 import jobs as c03_jobs
    for j in c03_jobs():
        if j.name.startswith("L2-next-option") or j.name.startswith("L2b-"):
            j2 = copy.copy(j)
            j2.name = "P-" + j.name
            j2.group = "P-parse-option-step"
            js.append(j2)
    return js
