from verif.core import Job
from jobs.C07 import UNITS, EXTRA, FS

CUT = ["UNREACH_HANDLE_REQUEST", "UNREACH_HANDLE_RESPONSE", "UNREACH_SIGNALING", "UNREACH_OSCORE", "UNREACH_BLOCK_CLIENT", "UNREACH_LG_CRCV"]
RB = ["__CPROVER_file_local_coap_net_c_handle_request", "__CPROVER_file_local_coap_net_c_handle_response",
      "__CPROVER_file_local_coap_net_c_handle_signaling", "coap_session_free", "coap_proxy_remove_association",
      "coap_block_new_lg_crcv", "coap_handle_response_send_block", "coap_handle_response_get_block"]

META = {
    "bounds": "L1: session-table key (coap_make_addr_hash) for every pair of IPv4/IPv6 remote addresses, ports, local ports, scope ids "
              "and protocols: equal keys iff same peer tuple (this is what uthash compares after hashing); S2: reference/release from "
              "every count 1..999 for client and server sessions; S3: idle reclamation in coap_io_prepare_io_lkd for one server session "
              "in every state (ref 0..2, held message or not, last activity, clock, session_timeout 0..600 s, never-established); S4: eviction of the "
              "oldest idle of 3 sessions (real uthash, concrete keys); S5: a queued Confirmable parked on the delay queue returns its reference; "
              "S6: client-session loop of coap_io_prepare_io_lkd with keepalive (ping_timeout 0..600 s, Confirmable in flight or not): temporary "
              "reference paired; B1: coap_free_context_lkd with leak checking on the listed client- and server-side shapes.",
    "outside": "the uthash table itself (SESSIONS_FIND/ADD inside coap_endpoint_get_session: third-party macros, not encoded - the 1:1 "
               "claim rests on key injectivity); "
               "coap_free_context_lkd teardown beyond the B1 shapes (one client session with async/queued/held messages; one endpoint with one idle server session and a pending async entry); holders' reference pairing is decided in C06/C07/C11 jobs (which run with "
               "coap_session_free replaced by a failing stub)",
    "assumptions": ["IPv4 sockaddr padding (sin_zero) is zero in both packets (the kernel zero-fills it)",
                    "coap_session_free replaced by a recording stub; uthash iteration follows hh.next (hand-linked single session)"],
}


def jobs():
    js = []
    for f1, f2 in ((4, 4), (6, 6), (4, 6)):
        js.append(Job("L1-key@v%d-v%d" % (f1, f2), "C12/c12.c", "c12_l1_key", UNITS, extra_src=EXTRA, defines=["FAM1=%d" % f1, "FAM2=%d" % f2] + CUT,
                      remove_bodies=RB, unwind=18, unwindset={"memcmp.0": 130}, flags=FS, group="L1-key", est_gb=3,
                      desc="session key injectivity, IPv%d vs IPv%d" % (f1, f2), bounds={"families": [f1, f2]}))
    js.append(Job("S2-refcount", "C12/c12.c", "c12_s2_refcount", UNITS, extra_src=EXTRA, defines=CUT, remove_bodies=RB, unwind=18, flags=FS, est_gb=3,
                  desc="reference/release: freed exactly at the last reference of a client session", bounds={"ref": "1..999"}))
    js.append(Job("S3-idle", "C12/c12.c", "c12_s3_idle", UNITS, extra_src=EXTRA, defines=CUT, remove_bodies=RB, unwind=18, flags=FS, est_gb=4, timeout=1500,
                  desc="idle server session reclaimed iff unreferenced and timed out; wait bounded by idle deadline", bounds={"sessions": 1}))
    js.append(Job("S4-evict-oldest-idle", "C12/c12.c", "c12_s4_evict", UNITS, extra_src=EXTRA, defines=CUT, remove_bodies=RB, unwind=40, flags=FS, est_gb=4, timeout=1500,
                  desc="datagram from a new peer with 3 server sessions in the real uthash table: oldest idle one reclaimed at max_idle_sessions",
                  bounds={"sessions": 3, "max_idle_sessions": "0..4"}))
    js.append(Job("S5-park-node", "C12/c12.c", "c12_s5_park_node", UNITS, extra_src=EXTRA, defines=CUT, remove_bodies=RB, unwind=18, flags=FS, est_gb=3,
                  desc="a queued Confirmable parked on the delay queue (coap_session_delay_pdu with its node) gives its session reference back once",
                  bounds={"ref": "1..999", "queue": "1-2 nodes"}))
    js.append(Job("S6-client-loop", "C12/c12.c", "c12_s6_client_loop", UNITS, extra_src=EXTRA, defines=CUT, remove_bodies=RB, unwind=18, flags=FS, est_gb=4, timeout=1500,
                  desc="coap_io_prepare_io_lkd over one client session: temporary reference released on every path incl. a refused keepalive ping",
                  bounds={"sessions": 1, "ping_timeout": "0..600 s"}))
    # B1: context teardown with the real session release/free chain; memory-leak + deallocated-object obligations
    cutb = [c for c in CUT if c != "UNREACH_SESSION_FREE"]
    rbb = [r for r in RB if r not in ("coap_session_free", "coap_proxy_remove_association")]
    for a, q, h in ((1, 1, 1), (1, 0, 0), (0, 1, 1), (0, 0, 0)):
        js.append(Job("B1-teardown@async%d-queued%d-held%d" % (a, q, h), "C12/c12b.c", "c12_b1_teardown", UNITS, extra_src=EXTRA,
                      defines=cutb + ["WITH_ASYNC=%d" % a, "WITH_QUEUED=%d" % q, "WITH_HELD=%d" % h], remove_bodies=rbb, unwind=40,
                      flags=FS + ["--memory-leak-check"], group="B1-teardown", est_gb=4, timeout=1500,
                      desc="coap_free_context_lkd with one client session (async entry %d, queued CON %d, held CON %d): all released, once" % (a, q, h),
                      bounds={"sessions": 1, "async": a, "queued": q, "held": h}))
    for a in (1, 0):
        js.append(Job("B1-teardown-server@async%d" % a, "C12/c12b.c", "c12_b1_teardown_server", UNITS, extra_src=EXTRA,
                      defines=cutb + ["WITH_SRV_ASYNC=%d" % a], remove_bodies=rbb, unwind=40,
                      flags=FS + ["--memory-leak-check"], group="B1-teardown-server", est_gb=4, timeout=1500,
                      desc="coap_free_context_lkd with one endpoint and one idle server session (pending async entry %d): one SESSION_DEL, all released" % a,
                      bounds={"endpoints": 1, "server_sessions": 1, "async": a}))
    return js
