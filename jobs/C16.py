from verif.core import Job

UNITS = ["coap_uri.c", "coap_option.c", "coap_pdu.c", "coap_str.c", "coap_encode.c"]
EXTRA = ["common/env.c"]

META = {
    "bounds": "B1: coap_split_uri and coap_split_proxy_uri on \"<scheme>://\" (each of the 8 schemes, concrete) followed by every tail of "
              "k bytes (coap: k <= 8 quick / 10 thorough; other schemes k = 3-4 quick / <= 6 thorough) and on every string of <= 4 (quick) / 6 "
              "(thorough) bytes without a scheme, exact-size input object, symbolic build support for DTLS/TCP/TLS/WS/WSS: accept/reject, scheme, "
              "host (reg-name or inside of an IPv6 literal), port (explicit or scheme default, 0 for Unix-domain), path and query slices equal "
              "an independent RFC 7252 6.1/6.2 splitter; L1: dots() on every segment of length <= 5 (quick) / 7 (thorough) and check_segment() on every segment of "
              "length <= 4 / 6, exact-size objects, full byte alphabet; B2: coap_split_path and coap_split_query on every string of "
              "length <= 3 (quick) / 4-6 (thorough), output buffer sizes {0,1,2,n,2n+2}: nothing written outside the buffer, and for "
              "well-formed escapes with a sufficient buffer the emitted options equal the reference list (RFC 3986 5.2.4 dot-segment "
              "removal, escapes decoded exactly once); B3: coap_get_uri_path / coap_get_query on requests with 1-2 options of "
              "length 0..2 and every byte value: exact allocation, well-formed output, reference splitter gives back the option "
              "values (left inverse = injectivity).",
    "outside": "B1: tails longer than k (hence ports of more than k-2 digits, hosts longer than k); character-class validity of the host "
               "(libcoap does not check it; the reference does not either); the heap-allocating coap_*_into_optlist helpers are "
               "not encoded in this version (C18 drives coap_uri_into_optlist under allocation failure only); strings longer than the per-job n; more than 2 options of more than 2 bytes in B3; "
               "literal '.'/'..' Uri-Path option values in B3 (never produced by RFC 7252 6.4)",
    "assumptions": ["reference splitter/decoder inside harness/C16/c16.c written from RFC 3986 2.1/5.2.4 and RFC 7252 6.4",
                    "B1: coap_{dtls,tcp,tls,ws,wss}_is_supported() replaced by symbolic 0/1 stubs (the reference rejects an unsupported scheme)", "isxdigit() through a C-locale model of glibc's __ctype_b_loc table", "B3: capacity allocator (64-byte blocks with canary) instead of symbolic-size objects"],
}


def jobs():
    js = []
    for n in range(0, 8):
        js.append(Job("L1-dots@n%d" % n, "C16/c16.c", "c16_l1_dots", UNITS, extra_src=EXTRA, defines=["N=%d" % n, "ENV_NO_ALLOC"], unwind=n + 3,
                      tier="quick" if n <= 5 else "thorough", group="L1-dots", termination=True,
                      desc="dots() vs reference on every %d-byte segment (exact-size)" % n, bounds={"n": n}))
    for n in range(0, 7):
        js.append(Job("L1-check-segment@n%d" % n, "C16/c16.c", "c16_l1_check_segment", UNITS, extra_src=EXTRA, defines=["N=%d" % n, "ENV_NO_ALLOC"], unwind=n + 3,
                      tier="quick" if n <= 4 else "thorough", group="L1-check-segment", termination=True,
                      desc="check_segment() vs reference on every %d-byte segment (exact-size: reads stay inside)" % n, bounds={"n": n}))
    for n in range(0, 6):
        js.append(Job("L1-replace-percents@n%d" % n, "C16/c16.c", "c16_l1_replace_percents", UNITS, extra_src=EXTRA, defines=["N=%d" % n, "ENV_NO_ALLOC"], unwind=n + 3,
                      tier="quick" if n <= 4 else "thorough", group="L1-replace-percents", termination=True,
                      desc="coap_replace_percents on every %d-byte option value (exact-size: reads stay inside)" % n, bounds={"n": n}))
    for q, qn in ((0, "path"), (1, "query")):
        for n in range(0, 7):
            variants = [("functional", 2 * n + 2, True)] + [("safety-bl%d" % b, b, False) for b in sorted(set([0, 1, 2, n]))]
            for vn, bl, fn in variants:
                tier = "quick" if n <= (3 if fn else 3) else "thorough"
                if fn and n > 5:
                    continue
                js.append(Job("B2-split-%s@n%d-%s" % (qn, n, vn), "C16/c16.c", "c16_b2_split", UNITS, extra_src=EXTRA,
                              defines=["N=%d" % n, "QUERY=%d" % q, "BL=%d" % bl, "ENV_NO_ALLOC"] + (["FUNCTIONAL"] if fn else []), unwind=n + 10, tier=tier,
                              group="B2-split-" + qn, termination=True, timeout=1800, est_gb=2 + n,
                              desc="coap_split_%s on every %d-byte string, buffer %d (%s)" % (qn, n, bl, "vs reference" if fn else "memory safety"),
                              bounds={"n": n, "buffer": bl, "function": "coap_split_" + qn}))
    for q, qn in ((0, "uri-path"), (1, "query")):
        for (nseg, l1, l2) in ((1, 0, 0), (1, 1, 0), (1, 2, 0), (2, 1, 1), (2, 0, 1), (2, 1, 0), (2, 2, 1), (2, 0, 0), (2, 2, 2)):
            n = 3 * (l1 + l2) + 1
            js.append(Job("B3-get-%s@%dseg-%d.%d" % (qn, nseg, l1, l2), "C16/c16.c", "c16_b3_get", UNITS, extra_src=EXTRA,
                          defines=["NSEG=%d" % nseg, "L1=%d" % l1, "L2=%d" % l2, "QUERY=%d" % q, "N=%d" % n, "ENV_NO_ALLOC"], unwind=n + 3,
                          tier="quick" if l1 + l2 <= 2 else "thorough", group="B3-get-" + qn, termination=True, timeout=1800, est_gb=4,
                          desc="coap_get_%s on %d option(s) of length %d/%d, every byte value: exact allocation, injective" % (qn.replace("-", "_"), nseg, l1, l2),
                          bounds={"segments": nseg, "lengths": [l1, l2]}))
    # B1: coap_split_uri / coap_split_proxy_uri
    names = ["coap", "coaps", "coap+tcp", "coaps+tcp", "http", "https", "coap+ws", "coaps+ws"]
    for n in range(0, 7):
        for px in (0, 1):
            js.append(Job("B1-split-uri@noscheme-n%d%s" % (n, "-proxy" if px else ""), "C16/c16.c", "c16_b1_split_uri", UNITS, extra_src=EXTRA,
                          defines=["B1", "NOSCHEME", "N=%d" % n, "PROXY=%d" % px, "ENV_NO_ALLOC"], unwind=n + 12,
                          tier="quick" if n <= 4 else "thorough", group="B1-split-uri", termination=True, timeout=900, est_gb=3,
                          desc="coap_split_%suri on every %d-byte string (too short for a scheme): only abs-path[?query] accepted" % ("proxy_" if px else "", n),
                          bounds={"n": n, "proxy": px}))
    for sch, nm in enumerate(names):
        for k in range(0, 11):
            for px in (0, 1):
                if sch == 0 and not px:
                    tier = "quick" if k <= 8 else "thorough"
                elif k == 3 or (k == 4 and px == (sch >= 4)):
                    tier = "quick"
                elif k <= 6:
                    tier = "thorough"
                else:
                    continue
                if k > 7 and (sch or px):
                    continue
                js.append(Job("B1-split-uri@%s-k%d%s" % (nm, k, "-proxy" if px else ""), "C16/c16.c", "c16_b1_split_uri", UNITS, extra_src=EXTRA,
                              defines=["B1", "SCH=%d" % sch, "K=%d" % k, "PROXY=%d" % px, "ENV_NO_ALLOC"], unwind=k + 24,
                              tier=tier, group="B1-split-uri", termination=True, timeout=1800, est_gb=3,
                              desc="coap_split_%suri on \"%s://\" + every %d-byte tail: accept/reject, scheme, host, port, path, query vs reference; reads inside the exact-size input"
                                   % ("proxy_" if px else "", nm, k),
                              bounds={"scheme": nm, "tail_bytes": k, "proxy": px}))
    return js
