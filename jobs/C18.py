from verif.core import Job
from jobs.C07 import UNITS, EXTRA, CUT_CLIENT, RB_CLIENT

FS = ["--max-field-sensitivity-array-size", "700", "--memory-leak-check"]

META = {
    "bounds": "fixed catalogue of scenarios with concrete data and a SYMBOLIC failure pattern: in each scenario every call of "
              "coap_malloc_type / coap_realloc_type may independently return NULL (any subset, which includes 'exactly the k-th' "
              "and every pair): (1) message building incl. forced buffer growth and out-of-order insert, (2) "
              "coap_path_into_optlist / coap_query_into_optlist, (3) coap_send_internal of a Confirmable (node allocation after the "
              "write), (4) coap_get_uri_path / coap_get_query / coap_new_error_response, (5) coap_uri_into_optlist, (6) observe registration "
              "(coap_add_observer incl. coap_pdu_duplicate_lkd; failing allocation k concrete 0..5, token symbolic), (7) coap_add_data_large_request_lkd "
              "for a body that needs transfer state (lg_xmit, app token, skeletal PDU; index of the failing allocation SYMBOLIC 0..4), (8) coap_block_build_body: first block + growth, any subset, (9) the /.well-known/core GET handler with the block layer as a contract stub that may refuse the body. Obligations: documented error return, "
              "accepted part of the message intact (accessor model), nothing leaked (CBMC memory-leak check), no double free / use "
              "after free (CBMC deallocated-object checks), PDU given to send consumed exactly once, the same operation succeeds "
              "once memory is available.",
    "outside": "scenarios not in the catalogue: block-wise transfers beyond handing the body over, OSCORE exchanges, session/context set-up and "
               "tear-down, receive path (coap_handle_dgram allocations)",
    "assumptions": ["allocator stub env.c with ENV_ALLOC_MAY_FAIL; all libcoap allocations go through coap_malloc_type/coap_realloc_type"],
}


def jobs():
    d = ["ENV_ALLOC_MAY_FAIL"] + CUT_CLIENT
    js = []
    # PDU building: "fail exactly the k-th allocation" with k concrete per job (with an arbitrary subset failing, alloc_size/max_opt
    # become symbolic and symex did not finish in 1800 s); k beyond the last allocation = no failure
    for v, what in ((0, "append"), (1, "insert")):
        for k in range(0, 6):
            js.append(Job("scenario-build-%s@fail%d" % (what, k), "C18/c18.c", "c18_build", UNITS, extra_src=EXTRA,
                          defines=d + ["BUILD_VARIANT=%d" % v, "ENV_FAIL_AT=%d" % k, "ENV_REALLOC_BYTELOOP"],
                          remove_bodies=RB_CLIENT, unwind=24, unwindset={"coap_insert_option": 3, "coap_add_option_internal": 3}, flags=FS, timeout=900, est_gb=4,
                          group="scenario-build-" + what, witness=(k <= 2),
                          desc="PDU building with forced growth (%s path): allocation #%d fails" % (what, k), bounds={"scenario": "build-" + what, "failing allocation": k}))
    for name, entry, desc in (("optlist", "c18_optlist", "URI to optlist helpers"),
                              ("uri", "c18_uri", "coap_uri_into_optlist (Uri-Host, Uri-Port, Uri-Path, Uri-Query)"),
                              ("send", "c18_send", "coap_send_internal of a CON"), ("body", "c18_body", "coap_block_build_body (first block, then growth beyond the announced total)"), ("strings", "c18_strings", "strings / error response derived from a request")):
        js.append(Job("scenario-%s" % name, "C18/c18.c", entry, UNITS, extra_src=EXTRA, defines=d, remove_bodies=RB_CLIENT, unwind=24, flags=FS,
                      timeout=1800, est_gb=4, desc="%s: any subset of allocations fails" % desc, bounds={"scenario": name}))
    # concrete "fail exactly the k-th allocation" (any-subset made the buffer sizes symbolic: SAT out of memory at 12 GB); k past the last allocation = no failure
    for k in range(0, 6):
        js.append(Job("scenario-observe@fail%d" % k, "C18/c18.c", "c18_observe", UNITS, extra_src=EXTRA, defines=d + ["C18_OBSERVE", "ENV_LOG_QUIET", "ENV_FAIL_AT=%d" % k],
                      remove_bodies=RB_CLIENT + ["coap_cache_derive_key_w_ignore", "coap_delete_cache_key"], unwind=24, flags=FS, timeout=900, est_gb=4,
                      group="scenario-observe", witness=(k <= 3),   # k symbolic: SAT out of memory at 12 GB (sizes become symbolic)
                      desc="observe registration (coap_add_observer): allocation #%d fails" % k, bounds={"scenario": "observe", "failing allocation": k}))
    # concrete-k variants of the large scenario (with a second upload afterwards) are not registered: the symbolic-k job below decides every k
    js.append(Job("scenario-large@failsym", "C18/c18.c", "c18_large", UNITS, extra_src=EXTRA, defines=[x for x in d if x != "UNREACH_LG_CRCV"] + ["C18_LARGE", "ENV_LOG_QUIET", "ENV_FAIL_SYM=4"],
                  remove_bodies=[r for r in RB_CLIENT if r != "coap_block_new_lg_crcv"], unwind=50, flags=FS, timeout=900, est_gb=6,
                  group="scenario-large", desc="coap_add_data_large_request_lkd (Block1 transfer state for a 100-byte body): the k-th allocation fails, k symbolic 0..4",
                  bounds={"scenario": "large", "failing allocation": "symbolic 0..4 (4 = none fails)"}))
    js.append(Job("scenario-wellknown", "C20/c20b.c", "c20_b2_handler", UNITS, extra_src=EXTRA, defines=d + ["PL=3", "ENV_LOG_QUIET"],
                  remove_bodies=RB_CLIENT + ["coap_add_data_large_response_lkd"], unwind=24, flags=FS, timeout=900, est_gb=4,
                  desc="GET /.well-known/core handler with block support: any subset of allocations fails and/or the block layer refuses the body (after releasing it)",
                  bounds={"scenario": "wellknown", "resources": 1}))
    return js
