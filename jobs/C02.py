from verif.core import Job

UNITS = ["coap_pdu.c", "coap_option.c", "coap_encode.c"]
UNITS_ACC = UNITS + ["coap_block.c"]
UNITS_DG = ["coap_net.c", "coap_session.c", "coap_pdu.c", "coap_option.c", "coap_encode.c"]
EXTRA = ["common/env.c", "ref/ref_codec.c"]
CUT = ["LIBCOAP_VERIF_NO_PARSE_DUMP"]
PROTOS = {"udp": 1, "tcp": 3, "ws": 5}

META = {
    "bounds": "coap_pdu_parse on every byte string of length n (exact-size heap object) per transport: n<=8 quick / <=10 "
              "thorough with the rejected-PDU dump cut, n<=2 quick / <=3 thorough with the dump present; PDU allocated as "
              "coap_handle_dgram/coap_read_session do (size 1152) and as the persist loader does (size 0); accessor sweep "
              "n<=5 (t: 8); coap_handle_dgram isolation n<=6 (t: 8); option leaf functions n<=6; coap_show_pdu (debug walk, real coap_debug.c) on exact-size messages with one "
              "option of each printer class (OSCORE, Block, Content-Format, Uri-Port, Observe, ETag, No-Response, Rtag, Uri-Path, Hop-Limit, Size1, Echo, unknown) and every value "
              "length up to the printer's maximum, value bytes symbolic; the 4-entry received-blocks range table from any well-formed state. Unwinding assertions on "
              "(termination inside the bound). Log level arbitrary 0..8.",
    "outside": "inputs longer than the per-job n through whole-message parsing; stream readers (decided under C05 with the "
               "same memory obligations); OSCORE option input (C14); endpoint states beyond the S-shape pre-states of C05/C06/C11/C15; "
               "coap_debug.c beyond coap_show_pdu on the listed single-option shapes (value lengths 0..max per printer)",
    "assumptions": [
        "CBMC built-in obligations: pointer dereference/bounds/use-after-free/double-free, pointer overflow, signed overflow, undefined shift, unwinding assertions",
        "coap_log_impl stubbed empty (formatting not executed), log level arbitrary; allocator never fails",
        "coap_dispatch and coap_send_internal replaced by recording stubs in the coap_handle_dgram job (C10 covers dispatch)",
    ],
}


def jobs():
    js = []
    for pn, pv in PROTOS.items():
        for n in range(0, 11):
            js.append(Job("parse-cut@%s-n%02d" % (pn, n), "C02/c02.c", "c02_parse", UNITS, extra_src=EXTRA, unit_defines=CUT,
                          defines=["PROTO=%d" % pv, "N=%d" % n], unwind=n + 2, termination=True, group="parse-cut@" + pn,
                          tier="quick" if n <= 8 else "thorough", timeout=900, mem_gb=16, est_gb=1 + n / 3.0,
                          desc="coap_pdu_parse(%s) memory safety + termination on every %d-byte input (dump cut)" % (pn, n),
                          bounds={"n": n, "proto": pn, "pdu_size": 1152}))
        for n in range(0, 4):
            if pn == "tcp" and n > 1:
                continue     # symbolic header size x dump loops: out of memory; the dump code is transport independent
            js.append(Job("parse-dump@%s-n%02d" % (pn, n), "C02/c02.c", "c02_parse", UNITS, extra_src=EXTRA,
                          defines=["PROTO=%d" % pv, "N=%d" % n], unwind=n + 3, termination=True, group="parse-dump@" + pn,
                          tier="quick" if n <= 2 else "thorough", timeout=3000, mem_gb=24, est_gb=2 + 3 * n,
                          desc="coap_pdu_parse(%s) incl. the rejected-PDU hex dump on every %d-byte input" % (pn, n),
                          bounds={"n": n, "proto": pn, "dump_block": "present"}))
    for n in range(2, 9):
        js.append(Job("parse-size0@udp-n%02d" % n, "C02/c02.c", "c02_parse", UNITS, extra_src=EXTRA, unit_defines=CUT,
                      defines=["PROTO=1", "N=%d" % n, "SFORM=0"], unwind=n + 2, termination=True, group="parse-size0",
                      tier="quick" if n <= 6 else "thorough", timeout=900,
                      desc="coap_pdu_parse into a coap_pdu_init(0,0,0,0) PDU (persist loader form), every %d-byte input" % n,
                      bounds={"n": n, "pdu_size": 0}))
    for pn, pv in PROTOS.items():
        for n in range(2, 9):
            if pn == "tcp" and n > 2:
                continue     # accessors are transport independent; TCP's symbolic header size makes these run out of memory
            js.append(Job("accessors@%s-n%02d" % (pn, n), "C02/c02.c", "c02_parse", UNITS_ACC, extra_src=EXTRA, unit_defines=CUT,
                          defines=["PROTO=%d" % pv, "N=%d" % n, "ACCESSORS"], unwind=n + 2, unwindset={"coap_flsll.0": 18, "__CPROVER_file_local_coap_option_c_coap_option_filter_op.0": 4, "__CPROVER_file_local_coap_option_c_coap_option_filter_op.1": 8}, termination=True, group="accessors@" + pn,
                          tier="quick" if n <= 5 else "thorough", timeout=1500, mem_gb=16, est_gb=1 + n,
                          desc="iterator/filter/coap_get_block/coap_get_data on every accepted %d-byte %s message" % (n, pn),
                          bounds={"n": n, "proto": pn}))
    for n in range(0, 7):
        js.append(Job("opt-leaf-n%02d" % n, "C02/c02.c", "c02_opt_leaf", UNITS, extra_src=EXTRA, unit_defines=CUT,
                      defines=["N=%d" % n], unwind=3, termination=True, group="opt-leaf",
                      desc="coap_opt_parse/length/value on an exact-size %d-byte option" % n, bounds={"n": n}))
    for n in range(0, 9):
        js.append(Job("dgram@n%02d" % n, "C02/c02.c", "c02_dgram", UNITS_DG, extra_src=EXTRA, unit_defines=CUT,
                      defines=["N=%d" % n], unwind=n + 2, termination=True, group="dgram",
                      remove_bodies=["coap_dispatch", "coap_send_internal"],
                      tier="quick" if n <= 6 else "thorough", timeout=1500, mem_gb=16,
                      desc="coap_handle_dgram: dispatch iff well-formed (reference), at most one empty RST otherwise; %d-byte input" % n,
                      bounds={"n": n}))
    # debug-level walk: real coap_show_pdu (coap_debug.c) on exact-size PDUs; logging primitives come from env.c
    rb_dbg = ["coap_log_impl", "coap_get_log_level", "coap_set_log_level"]
    units_dbg = UNITS_ACC + ["coap_debug.c"]
    uw_dbg = {"strlen.0": 40}
    for fn, k in (("print_readable.0", 12), ("print_content_format.0", 64), ("msg_option_string.0", 64), ("msg_option_string.1", 64),
                  ("msg_option_string.2", 64), ("msg_option_string.3", 64), ("msg_option_string.4", 64)):
        uw_dbg[fn] = k                                               # name tables of coap_debug.c: constant sizes < 64
        uw_dbg["__CPROVER_file_local_coap_debug_c_" + fn] = k
    # show-pdu@udp-n04 (every accepted 4-byte message through coap_show_pdu) ran out of SAT memory at 16 GB beside other jobs and is not registered;
    # the per-printer show-option jobs below carry the claim
    # the option printers with their own value parsing, concrete layout, value bytes symbolic, every value length 0..L
    for num, name, minlen, maxlen in ((9, "oscore", 0, 8), (23, "block2", 0, 3), (27, "block1", 0, 3), (12, "content-format", 0, 2), (17, "accept", 0, 2),
                                      (7, "uri-port", 0, 2), (6, "observe", 0, 3), (4, "etag", 1, 4), (258, "no-response", 0, 1), (292, "rtag", 0, 3), (11, "uri-path", 0, 3),
                                      (16, "hop-limit", 1, 1), (60, "size1", 0, 4), (252, "echo", 1, 3), (65000, "unknown", 0, 3)):
        for ln in range(minlen, maxlen + 1):
            for payload in ((0, 2) if ln == maxlen else (0,)):
                js.append(Job("show-option@%s-len%d%s" % (name, ln, "-payload" if payload else ""), "C02/c02d.c", "c02_show_pdu", units_dbg, extra_src=EXTRA, unit_defines=CUT,
                              defines=["OPTNUM=%d" % num, "OPTLEN=%d" % ln, "PAYLOAD=%d" % payload], unwind=12, unwindset=uw_dbg, termination=True,
                              group="show-option@" + name, remove_bodies=rb_dbg, timeout=900, est_gb=2,
                              tier="quick" if (num in (9, 23, 12, 4, 11) or ln == maxlen) else "thorough",
                              desc="coap_show_pdu on a message whose %s option has %d symbolic value bytes (exact-size PDU)" % (name, ln),
                              bounds={"option": num, "value_length": ln, "payload": payload}))
    # peer-controlled block numbers drive the fixed 4-entry range table of a transfer (anchor: rec_blocks ranges[4]): the C09 step harness
    # decides that update_received_blocks never writes outside the table from ANY well-formed table (CBMC bounds obligations + invariant)
    import copy
    from jobs.C09 import jobs as c09_jobs
    for j in c09_jobs():
        if j.group == "S1-received-blocks":
            j2 = copy.copy(j)
            j2.name = "blocks-" + j.name
            j2.group = "blocks-range-table"
            js.append(j2)
    return js
