from verif.core import Job
from jobs.C07 import UNITS, EXTRA, FS

CUT = ["UNREACH_HANDLE_RESPONSE", "UNREACH_SIGNALING", "UNREACH_OSCORE", "UNREACH_SESSION_FREE", "UNREACH_BLOCK_SERVER"]
RB = ["__CPROVER_file_local_coap_net_c_handle_response", "__CPROVER_file_local_coap_net_c_handle_signaling",
      "coap_session_free", "coap_proxy_remove_association", "coap_get_resource_from_uri_path_lkd",
      "coap_handle_request_put_block", "coap_handle_request_send_block"]
T = {"con": 0, "non": 1, "ack": 2, "rst": 3}
M = {"get": 1, "post": 2, "put": 3, "delete": 4, "fetch": 5}
X = {"none": 0, "unknown-critical": 1, "if-none-match": 2, "content-format": 3, "proxy-uri": 4, "hop-limit-1": 5, "hop-limit-0": 6,
     "hop-limit-n": 7, "repeat-cf": 8, "unknown-elective": 9, "no-response": 10, "proxy-scheme": 11, "accept-block2m": 12}
P = {"nopath": 0, "known": 1, "unknown": 2, "wellknown": 3, "one-segment-a/b": 4, "two-segments-a-b": 5}

META = {
    "bounds": "one request datagram of an enumerated concrete layout (method x type x Uri-Path in {none, known, unknown} x one "
              "extra option from the list in jobs/C10.py x resource table variant), symbolic mid/token/option values/Hop-Limit/"
              "No-Response value, through the real coap_dispatch -> handle_request -> handler -> coap_send_internal; plus the "
              "static no_response() decision function over every No-Response value, response code and type; its multicast rules for every "
              "code x per-resource flag word x mcast_per_resource setting (unicast vs 224.0.1.187 local address).",
    "outside": "requests with more than 3 options; arbitrary resource tables (uthash lookup is modelled: trusted third-party macro); "
               "block-wise and observe side paths (C09/C11); OSCORE; /.well-known/core body (C20); multicast delay path; async",
    "assumptions": ["coap_get_resource_from_uri_path_lkd replaced by a linear model of uthash's lookup contract",
                    "l_write/handlers stubs; block_mode = 0; unicast UDP server session"],
}

# (name, type, method, path, extra, table, expect, expect_handler)   expect: c.dd as c*100+dd, 0 none, -1 RST, 1 empty ACK
CASES = [
    ("get-known", "con", "get", "known", "none", 0, 205, 1),
    ("get-known-non", "non", "get", "known", "none", 0, 205, 1),
    ("get-unknown", "con", "get", "unknown", "none", 0, 404, 0),
    ("get-unknown-non", "non", "get", "unknown", "none", 0, 404, 0),
    ("delete-unknown", "con", "delete", "unknown", "none", 0, 202, 0),
    ("put-known-nohandler", "con", "put", "known", "none", 1, 405, 0),
    ("get-known-ifnonematch", "con", "get", "known", "if-none-match", 0, 412, 0),
    ("fetch-known-nocf", "con", "fetch", "known", "none", 0, 415, 0),
    ("fetch-known-cf", "con", "fetch", "known", "content-format", 0, 205, 1),
    ("get-known-unknowncrit", "con", "get", "known", "unknown-critical", 0, 402, 0),
    ("get-known-unknowncrit-non", "non", "get", "known", "unknown-critical", 0, -1, 0),
    ("get-known-unknownelective", "con", "get", "known", "unknown-elective", 0, 205, 1),
    ("get-known-repeatcf", "con", "get", "known", "repeat-cf", 0, 402, 0),
    ("get-proxyuri-noproxy", "con", "get", "nopath", "proxy-uri", 0, 505, 0),
    ("get-proxyscheme-noproxy", "con", "get", "nopath", "proxy-scheme", 0, 505, 0),
    ("get-known-hop1", "con", "get", "known", "hop-limit-1", 0, 508, 0),
    ("get-known-hop0", "con", "get", "known", "hop-limit-0", 0, 400, 0),
    ("get-known-hop2", "con", "get", "known", "hop-limit-n", 0, 205, 1, 0, 2),
    ("get-known-hop255", "non", "get", "known", "hop-limit-n", 0, 205, 1, 0, 255),
    ("get-unknown-unknownhandler", "con", "get", "unknown", "none", 2, 205, 2),
    ("put-unknown-unknownhandler", "non", "put", "unknown", "none", 2, 205, 2),
    # If-None-Match guards EXISTING resources only: a path served by the unknown-resource handler still reaches that handler
    ("put-unknown-ifnonematch-unknownhandler", "con", "put", "unknown", "if-none-match", 2, 205, 2),
    ("put-unknown-ifnonematch-unknownhandler-non", "non", "put", "unknown", "if-none-match", 2, 205, 2),
    ("get-as-ack", "ack", "get", "known", "none", 0, 0, 0),
    # a legal request whose Block2 M bit is cleared in place (option scan restarts) is not a "bad option" request
    ("get-nopath-accept-block2m", "con", "get", "nopath", "accept-block2m", 0, 404, 0),
    ("get-known-accept-block2m", "non", "get", "known", "accept-block2m", 0, 205, 1),
    # resource registered as "a/b": two segments find it, ONE segment "a/b" (slash inside the segment) does not
    ("get-a-b-two-segments", "con", "get", "two-segments-a-b", "none", 8, 205, 1),
    ("get-a/b-one-segment", "con", "get", "one-segment-a/b", "none", 8, 404, 0),
    ("delete-a/b-one-segment", "non", "delete", "one-segment-a/b", "none", 8, 202, 0),
]


for _nr in (0, 2, 8, 24, 26):
    CASES.append(("get-known-noresponse%d" % _nr, "con", "get", "known", "no-response", 0, 205, 1, _nr))
    CASES.append(("get-known-noresponse%d-non" % _nr, "non", "get", "known", "no-response", 0, 205, 1, _nr))
    CASES.append(("get-unknown-noresponse%d-non" % _nr, "non", "get", "unknown", "no-response", 0, 404, 0, _nr))


def jobs():
    js = []
    for case in CASES:
        (name, t, m, p, x, table, exp, eh) = case[:8]
        nr = case[8] if len(case) > 8 else 0
        hop = case[9] if len(case) > 9 else 2
        d = ["NORES=%d" % nr, "HOP=%d" % hop, "QTYPE=%d" % T[t], "METHOD=%d" % M[m], "PATH=%d" % P[p], "EXTRA=%d" % X[x], "TABLE=%d" % table, "EXPECT=%d" % exp,
             "EXPECT_HANDLER=%d" % eh] + CUT
        js.append(Job("S3-request@%s" % name, "C10/c10.c", "c10_s3_request", UNITS + ["coap_uri.c"] if "coap_uri.c" not in UNITS else UNITS,
                      extra_src=EXTRA, defines=d, remove_bodies=RB, unwind=34, flags=FS, group="S3-request", timeout=900, est_gb=3,
                      desc="%s %s path=%s extra=%s table=%d -> expect %s" % (t.upper(), m.upper(), p, x, table, exp),
                      bounds={"type": t, "method": m, "path": p, "extra": x, "table": table, "expect": exp}))
    for w in (0, 1):
        js.append(Job("L1-no-response@%s" % ("with-option" if w else "no-option"), "C10/c10.c", "c10_l1_no_response", UNITS, extra_src=EXTRA,
                      defines=(["WITH_NORESPONSE"] if w else []) + CUT, remove_bodies=RB, unwind=34, flags=FS, group="L1", timeout=900, est_gb=3,
                      desc="no_response() vs RFC 7967 table, every value/code/type", bounds={"no_response": "0..255", "code": "0..255"}))
    js.append(Job("L1-no-response@multicast", "C10/c10.c", "c10_l1_no_response_mcast", UNITS, extra_src=EXTRA, defines=CUT, remove_bodies=RB, unwind=34, flags=FS,
                  group="L1", timeout=900, est_gb=3, desc="no_response() multicast rules: RFC 7252 8.1 default and every combination of the per-resource suppression flags, every code",
                  bounds={"code": "0..255", "flags": "0..65535", "mcast_per_resource": "0/1"}))
    return js
