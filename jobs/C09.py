from verif.core import Job

UNITS = ["coap_block.c", "coap_pdu.c", "coap_option.c", "coap_encode.c", "coap_str.c"]
EXTRA = ["common/env.c"]

META = {
    "level_text": "PARTIAL. Bounded symbolic model checking (CBMC) of the kernels the body-integrity argument rests on - the received-block "
                  "range table (one step from every well-formed table, universally quantified witness block) and the Block option codec. "
                  "The property's end-to-end sentence (exact body delivered once under any loss/duplication, token substitution invisible, "
                  "release callback once, every block fits the MTU) is NOT claimed: the four block handlers of coap_block.c "
                  "(each several hundred lines over session x lg_xmit/lg_crcv/lg_srcv lists x PDUs x timers) could not be brought under "
                  "CBMC within reach.",
    "bounds": "S1: update_received_blocks + check_all_blocks_in from EVERY well-formed range table (0..3 ranges, block numbers < 2^20) with "
              "every incoming block number and every witness block / total; L1: coap_get_block_b / coap_opt_block_num on every Block2 value "
              "of length 0..3 on unreliable and BERT-negotiated reliable sessions.",
    "outside": "coap_handle_request_put_block, coap_handle_request_send_block, coap_handle_response_send_block, coap_handle_response_get_block, "
               "Q-Block, setup_block_b size negotiation, coap_block_build_body reassembly, retransmission/timeouts of transfers: not encoded",
    "assumptions": ["clock stub", "representation invariant of the range table (sorted, disjoint, merged, at most COAP_RBLOCK_CNT-1 ranges) written from the code's own refusal rule"],
}


def jobs():
    js = [Job("S1-received-blocks@used%d" % u, "C09/c09.c", "c09_s1_received_blocks", UNITS, extra_src=EXTRA, defines=["USED=%d" % u], unwind=8,
              timeout=1800, est_gb=4, group="S1-received-blocks", witness=(u >= 2),
              desc="one update_received_blocks step from an arbitrary well-formed table with %d ranges + check_all_blocks_in" % u,
              bounds={"ranges": u, "block": "< 2^20"}) for u in range(0, 4)]
    for bl in range(0, 4):
        js.append(Job("L1-block-option@len%d" % bl, "C09/c09.c", "c09_l1_block_option", UNITS, extra_src=EXTRA, defines=["BL=%d" % bl], unwind=12,
                      group="L1-block-option", desc="coap_get_block_b on every %d-byte Block2 value" % bl, bounds={"length": bl}))
    return js
