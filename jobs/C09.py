from verif.core import Job

UNITS = ["coap_block.c", "coap_pdu.c", "coap_option.c", "coap_encode.c", "coap_str.c"]
EXTRA = ["common/env.c"]

META = {
    "level_text": "PARTIAL. Bounded symbolic model checking (CBMC) of (a) the kernels the body-integrity argument rests on - the received-block "
                  "range table (one step from every well-formed table, universally quantified witness block) and the Block option codec - and "
                  "(b) the real server-side Block1 receiver coap_handle_request_put_block() driven with the datagrams of one transfer of 2-3 "
                  "blocks in enumerated delivery orders (in order, reordered, duplicated, incomplete; with and without Size1), all body and "
                  "token bytes symbolic: exact body, exactly once, own token, nothing before every block is in. The property's full "
                  "end-to-end sentence (any loss pattern, Block2, client side, every MTU) is NOT claimed beyond the jobs listed in the evidence.",
    "bounds": "S1: update_received_blocks + check_all_blocks_in from EVERY well-formed range table (0..3 ranges, block numbers < 2^20) with "
              "every incoming block number and every witness block / total; L1: coap_get_block_b / coap_opt_block_num on every Block2 value "
              "of length 0..3 on unreliable and BERT-negotiated reliable sessions; B1: transfers of 2 or 3 blocks of 16 bytes (last block 5 or 16 "
              "bytes), delivery orders listed per job (<= 4 datagrams), SZX 0, single-body mode, CON, UDP, 2-byte token.",
    "outside": "Q-Block, transfers of more than 3 blocks other than through the range-table induction, SZX renegotiation, "
               "retransmission/timeouts of transfers, two concurrent transfers; see DESIGN.md 4.9 for what each added job family covers",
    "assumptions": ["clock stub", "representation invariant of the range table (sorted, disjoint, merged, at most COAP_RBLOCK_CNT-1 ranges) written from the code's own refusal rule",
                    "B1: coap_handle_request_put_block is called the way handle_request() calls it (request parsed, response PDU initialised with the request's token)"],
}


def jobs():
    js = [Job("S1-received-blocks@used%d" % u, "C09/c09.c", "c09_s1_received_blocks", UNITS, extra_src=EXTRA, defines=["USED=%d" % u], unwind=8,
              timeout=1800, est_gb=4, group="S1-received-blocks", witness=(u >= 2),
              desc="one update_received_blocks step from an arbitrary well-formed table with %d ranges + check_all_blocks_in" % u,
              bounds={"ranges": u, "block": "< 2^20"}) for u in range(0, 4)]
    for bl in range(0, 4):
        js.append(Job("L1-block-option@len%d" % bl, "C09/c09.c", "c09_l1_block_option", UNITS, extra_src=EXTRA, defines=["BL=%d" % bl], unwind=12,
                      group="L1-block-option", desc="coap_get_block_b on every %d-byte Block2 value" % bl, bounds={"length": bl}))
    # B1: server side of a Block1 upload (single-body mode), real coap_handle_request_put_block, concrete delivery orders
    from jobs.C07 import UNITS as NU, EXTRA as NE, FS
    cut = ["UNREACH_HANDLE_REQUEST", "UNREACH_HANDLE_RESPONSE", "UNREACH_SIGNALING", "UNREACH_OSCORE", "UNREACH_SESSION_FREE", "UNREACH_BLOCK_CLIENT", "UNREACH_LG_CRCV"]
    rb = ["__CPROVER_file_local_coap_net_c_handle_request", "__CPROVER_file_local_coap_net_c_handle_response", "__CPROVER_file_local_coap_net_c_handle_signaling",
          "coap_session_free", "coap_proxy_remove_association", "coap_block_new_lg_crcv", "coap_handle_response_send_block", "coap_handle_response_get_block"]
    seqs = [(2, "01", 1, "quick"), (2, "0", 0, "quick"), (2, "10", 1, "quick"), (2, "001", 1, "quick"), (2, "011", 1, "thorough"),
            (3, "012", 1, "quick"), (3, "021", 1, "quick"), (3, "0112", 1, "thorough"), (3, "201", 1, "thorough"), (3, "01", 0, "quick"), (3, "02", 0, "thorough")]
    for nblk, sq, complete, tier in seqs:
        for size1 in (1, 0):
            nolast = str(nblk - 1) not in sq
            for lastlen in ((5, 16) if tier == "quick" and sq in ("01", "012") else (5,)):
                js.append(Job("B1-put@n%d-seq%s-%s-last%d" % (nblk, sq, "size1" if size1 else "nosize", lastlen), "C09/c09b.c", "c09_b1_put", NU, extra_src=NE,
                              defines=["NBLK=%d" % nblk, "SEQLEN=%d" % len(sq), "SEQ={%s}" % ",".join(sq), "SIZE1=%d" % size1, "LASTLEN=%d" % lastlen, "COMPLETE=%d" % complete] + cut + (["UNREACH_UPDATE_TOKEN"] if nolast else []),
                              remove_bodies=rb + (["coap_update_token"] if nolast else []), unwind=50, flags=FS, group="B1-put", timeout=900, est_gb=3, tier=tier,
                              desc="Block1 upload of %d blocks delivered in order %s (%s Size1, last block %d bytes): exact body, once" % (nblk, sq, "with" if size1 else "without", lastlen),
                              bounds={"blocks": nblk, "order": sq, "size1": size1, "last": lastlen}))
    # B2: client side of a Block2 download through the real coap_send_lkd / coap_dispatch / handle_response / coap_handle_response_get_block
    cut2 = ["UNREACH_HANDLE_REQUEST", "UNREACH_HANDLE_RESPONSE", "UNREACH_SIGNALING", "UNREACH_OSCORE", "UNREACH_SESSION_FREE"]
    rb2 = ["__CPROVER_file_local_coap_net_c_handle_request", "__CPROVER_file_local_coap_net_c_handle_response", "__CPROVER_file_local_coap_net_c_handle_signaling",
           "coap_session_free", "coap_proxy_remove_association"]
    seqs2 = [(2, "01", 1, "quick"), (2, "0", 0, "quick"), (2, "001", 1, "quick"), (2, "011", 1, "thorough"), (3, "012", 1, "quick"), (3, "0112", 1, "thorough"), (3, "01", 0, "thorough")]
    for nblk, sq, complete, tier in seqs2:
        for single in (1, 0):
            for size2 in (1, 0):
                for rtype in ("ack",) + (("non",) if sq in ("01",) else ()):
                    js.append(Job("B2-get@n%d-seq%s-%s-%s-%s" % (nblk, sq, "single" if single else "perblock", "size2" if size2 else "nosize", rtype), "C09/c09c.c", "c09_b2_get", NU, extra_src=NE,
                                  defines=["NBLK=%d" % nblk, "SEQLEN=%d" % len(sq), "SEQ={%s}" % ",".join(sq), "SIZE2=%d" % size2, "SINGLE=%d" % single, "COMPLETE=%d" % complete,
                                           "RTYPE=%d" % (2 if rtype == "ack" else 1)] + cut2,
                                  remove_bodies=rb2, unwind=50, flags=FS, group="B2-get", timeout=600, est_gb=4, tier=tier,
                                  desc="Block2 download of %d blocks, responses delivered in order %s (%s, %s Size2, %s responses): exact body/blocks, once, own token" %
                                       (nblk, sq, "single body" if single else "per block", "with" if size2 else "without", rtype.upper()),
                                  bounds={"blocks": nblk, "order": sq, "single_body": single, "size2": size2, "type": rtype}))
    for nblk, sq, errat, tier in ((2, "01", 1, "quick"), (3, "012", 2, "quick"), (3, "012", 1, "thorough"), (2, "01", 0, "thorough")):
        for single in (1, 0):
            js.append(Job("B2-get-error@n%d-seq%s-err%d-%s" % (nblk, sq, errat, "single" if single else "perblock"), "C09/c09c.c", "c09_b2_get", NU, extra_src=NE,
                          defines=["NBLK=%d" % nblk, "SEQLEN=%d" % len(sq), "SEQ={%s}" % ",".join(sq), "SIZE2=1", "SINGLE=%d" % single, "COMPLETE=0", "RTYPE=2", "ERR_AT=%d" % errat] + cut2,
                          remove_bodies=rb2, unwind=50, flags=FS, group="B2-get-error", timeout=600, est_gb=4, tier=tier,
                          desc="Block2 download of %d blocks where delivery #%d is a 4.04 to the request it answers (%s): error handed over once, own token, state released" %
                               (nblk, errat, "single body" if single else "per block"),
                          bounds={"blocks": nblk, "order": sq, "error_at": errat, "single_body": single}))
    # B3: client Block1 upload: coap_add_data_large_request_lkd + coap_send_lkd + dispatch of the 2.31/2.04 answers
    for ln, mx, peer, tier in ((40, 100, -1, "quick"), (33, 100, -1, "quick"),   # (40, 86): PDU maximum forcing a smaller block size - no verdict within 900 s, not registered
                                (40, 100, 0, "quick"), (16, 100, -1, "quick")):
        js.append(Job("B3-send@len%d-max%d%s" % (ln, mx, "-peer%d" % peer if peer >= 0 else ""), "C09/c09d.c", "c09_b3_send", NU, extra_src=NE,
                      defines=["LEN=%d" % ln, "MAXSIZE=%d" % mx, "PEERSZX=%d" % peer] + [c for c in cut2 if c != "UNREACH_HANDLE_RESPONSE"],
                      remove_bodies=[r for r in rb2 if not r.endswith("handle_response")], unwind=50, flags=FS, group="B3-send", timeout=900, est_gb=4, tier=tier,
                      desc="Block1 upload of a %d-byte body, PDU maximum %d%s: blocks tile the body, fit the maximum, final response once with own token, release once" %
                           (ln, mx, ", peer asks for SZX %d" % peer if peer >= 0 else ""),
                      bounds={"body": ln, "max_size": mx, "peer_szx": peer}))
    return js
