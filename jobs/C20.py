from verif.core import Job

UNITS = ["coap_resource.c", "coap_str.c", "coap_pdu.c", "coap_option.c", "coap_encode.c"]
EXTRA = ["common/env.c"]

META = {
    "bounds": "L1: coap_print_link for one resource (path 0..3 bytes, 0-1 attribute with name 1-2 bytes and value absent/empty/1-3 "
              "bytes, observable or not; all bytes symbolic) and EVERY (offset, buflen) up to listing length + 2 (both symbolic): "
              "written bytes = that window of the RFC 6690 listing, total length exact, truncation flag, canary outside; L2: "
              "match() on exact-size text <= 5 and pattern <= 3 bytes, all four exact/prefix x whole/token modes vs reference; "
              "B1: coap_print_wellknown_lkd over 1-2 hand-linked resources, no filter and attribute filter, every window; B2: the built-in GET handler "
              "hnd_get_wellknown_lkd with block support on (block layer = recording stub): body handed over == listing (one resource, 1-2 symbolic path bytes).",
    "outside": "tables with more than 2 resources / more than 1 attribute (induction over the resource loop: separator + coap_print_link); "
               "Block2 transport of the listing (C09); hnd_get_wellknown_lkd beyond one resource without attributes (B2); quoted attribute values in filters (assumed away in B1)",
    "assumptions": ["uthash iteration contract: RESOURCES_ITER follows hh.next from context->resources (hand-linked list)",
                    "reference listing/matcher in harness/C20/c20.c written from RFC 6690 sections 2 and 4.1"],
}


def jobs():
    js = []
    for (pl, nattr, an, av, obs, tier) in [(2, 1, 2, 3, 1, "quick"), (0, 0, 1, -1, 0, "quick"), (3, 1, 1, -1, 1, "quick"), (1, 1, 2, 0, 0, "quick"),
                                           (3, 1, 2, 1, 0, "thorough"), (1, 0, 1, -1, 1, "thorough"), (2, 1, 1, 2, 1, "thorough")]:
        js.append(Job("L1-print-link@p%d-a%d.%d.%d-obs%d" % (pl, nattr, an, av, obs), "C20/c20.c", "c20_l1_print_link", UNITS, extra_src=EXTRA,
                      defines=["PL=%d" % pl, "NATTR=%d" % nattr, "AN=%d" % an, "AV=%d" % av, "OBS=%d" % obs], unwind=20, tier=tier, group="L1-print-link",
                      desc="coap_print_link, every (offset, buflen) window; path %d, attr %s" % (pl, "none" if not nattr else "%d/%d" % (an, av)),
                      bounds={"path": pl, "attr_name": an if nattr else None, "attr_value": av if nattr else None, "observable": obs}))
    js.append(Job("L1-print-link@p1-a1.1.1-obs1-osc", "C20/c20.c", "c20_l1_print_link", UNITS, extra_src=EXTRA,
                  defines=["PL=1", "NATTR=1", "AN=1", "AV=1", "OBS=1", "OSC=1"], unwind=20, group="L1-print-link",
                  desc="coap_print_link, observable OSCORE-only resource (;obs;osc markers), every window", bounds={"path": 1, "oscore_only": 1}))
    js.append(Job("B1-wellknown@r2-f0-p1-a1.1-osc", "C20/c20.c", "c20_b1_wellknown", UNITS, extra_src=EXTRA,
                  defines=["NRES=2", "FILTER=0", "PL=1", "NATTR=1", "AN=1", "AV=1", "OBS=0", "OSC=1"], unwind=24, group="B1-wellknown", timeout=1800, est_gb=4,
                  desc="coap_print_wellknown_lkd, 2 OSCORE-only resources, every window", bounds={"resources": 2, "oscore_only": 1}))
    for tl in range(0, 6):
        for ql in range(1, 4):      # an empty pattern is a degenerate filter ('rt=') and not claimed
            js.append(Job("L2-match@t%d-q%d" % (tl, ql), "C20/c20.c", "c20_l2_match", UNITS, extra_src=EXTRA, defines=["TL=%d" % tl, "QL=%d" % ql],
                          unwind=max(tl, ql) + 3, tier="quick" if tl <= 4 and ql <= 3 else "thorough", group="L2-match", termination=True,
                          desc="match() on exact-size text %d / pattern %d, all modes" % (tl, ql), bounds={"text": tl, "pattern": ql}))
    for (nres, flt, pl, an, av, tier) in [(1, 0, 2, 2, 1, "quick"), (2, 0, 1, 1, 1, "quick"), (2, 1, 1, 1, 1, "quick"), (1, 1, 1, 2, 0, "quick"), (2, 0, 2, 2, 2, "thorough"),
                                          (2, 1, 2, 1, 2, "thorough")]:
        js.append(Job("B1-wellknown@r%d-f%d-p%d-a%d.%d" % (nres, flt, pl, an, av), "C20/c20.c", "c20_b1_wellknown", UNITS, extra_src=EXTRA,
                      defines=["NRES=%d" % nres, "FILTER=%d" % flt, "PL=%d" % pl, "NATTR=1", "AN=%d" % an, "AV=%d" % av, "OBS=0"], unwind=24, tier=tier,
                      group="B1-wellknown", timeout=1800, est_gb=4,
                      desc="coap_print_wellknown_lkd, %d resource(s), filter %d, every window" % (nres, flt), bounds={"resources": nres, "filter": flt}))
    # B2: the built-in handler (static hnd_get_wellknown_lkd of coap_net.c) with libcoap block support on; the block layer is a recording stub
    from jobs.C07 import UNITS as NET_UNITS, FS as NET_FS
    for pl in (1, 2):
        js.append(Job("B2-handler@p%d" % pl, "C20/c20b.c", "c20_b2_handler", NET_UNITS, extra_src=EXTRA, defines=["PL=%d" % pl, "ENV_LOG_QUIET", "UNREACH_SESSION_FREE"],
                      remove_bodies=["coap_add_data_large_response_lkd", "coap_session_free"], unwind=24, flags=NET_FS, group="B2-handler", timeout=900, est_gb=4,
                      desc="hnd_get_wellknown_lkd: size probe and print agree, body == listing, 2.05, link-format (one resource, path %d symbolic bytes)" % pl,
                      bounds={"resources": 1, "path_len": pl}))
    return js
