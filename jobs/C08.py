from verif.core import Job
from jobs.C07 import UNITS, EXTRA, FS, TYPES, NODES, CUT_CLIENT, RB_CLIENT, cuts

META = {
    "bounds": "C08-S1: one submission through coap_send_internal (CON and NON) from every state nstart 1..4, con_active 0..nstart, "
              "session established or not, 0 or 1 message already held; C08-S3 also for a Reset that answers the keep-alive ping; C08-S5: cancel-by-token with NSTART 2..3; C08-S2: coap_session_connected draining 1..3 held messages "
              "(every CON/NON pattern) for every nstart/con_active; completion events: empty ACK/RST through coap_dispatch with the "
              "queue holding the matching request, a request with another mid, or none (con_active bookkeeping); give-up in "
              "coap_retransmit (C06-S2).",
    "outside": "bursts beyond 3 held messages other than by induction over the drain loop; several sessions per context only through "
               "'other node untouched' obligations",
    "assumptions": ["l_write/handlers/clock stubs; representation invariant: messages are held only while the session is down or con_active == nstart"],
}


def jobs():
    js = []
    for st, sv in (("con", 0), ("non", 1)):
        for delayed in (0, 1):
            for wb in (0, 1):
                if st == "con" and delayed and not wb:
                    continue      # with a message held, a further Confirmable is always held (invariant): "sent" is unreachable
                js.append(Job("S1-submit@%s-held%d-%s" % (st, delayed, "blocked" if wb else "sent"), "C07/c07.c", "c08_s1_submit", UNITS,
                              extra_src=EXTRA, defines=["STYPE=%d" % sv, "DELAYED=%d" % delayed] + (["WIT_BLOCKED"] if wb else []) + CUT_CLIENT, remove_bodies=RB_CLIENT,
                              unwind=18, flags=FS, group="S1-submit", timeout=900, est_gb=3,
                              desc="coap_send_internal(%s) with %d held message(s): held vs sent, NSTART respected" % (st.upper(), delayed),
                              bounds={"type": st, "held": delayed}))
    for held in (1, 2, 3):
        js.append(Job("S2-drain@held%d" % held, "C07/c07.c", "c08_s2_drain", UNITS, extra_src=EXTRA, defines=["HELD=%d" % held] + CUT_CLIENT, remove_bodies=RB_CLIENT,
                      unwind=18, flags=FS, group="S2-drain", timeout=1500, est_gb=3, tier="quick" if held <= 2 else "thorough",
                      desc="coap_session_connected with %d held messages: in order, once each, up to NSTART" % held, bounds={"held": held}))
    for tn in ("ack", "rst"):
        for node in (0, 1, 2):
            js.append(Job("S3-completion@%s-%s" % (tn, NODES[node]), "C07/c07.c", "c07_s1_response", UNITS, extra_src=EXTRA,
                          defines=["RTYPE=%d" % TYPES[tn], "RCODE=0", "NODE=%d" % node] + cuts(tn == "ack" and node == 1)[0],
                          remove_bodies=cuts(tn == "ack" and node == 1)[1], unwind=18, flags=FS, group="S3-completion",
                          timeout=900, est_gb=3,
                          desc="empty %s through coap_dispatch, queue: %s: NSTART slot freed exactly when a Confirmable in flight completes" % (tn.upper(), NODES[node]),
                          bounds={"type": tn, "queue": NODES[node]}))
    for ns in (2, 3):
      js.append(Job("S5-cancel-by-token@nstart%d" % ns, "C07/c07.c", "c08_s5_cancel_by_token", UNITS, extra_src=EXTRA, defines=CUT_CLIENT + ["NSTART_C=%d" % ns], remove_bodies=RB_CLIENT, unwind=18, flags=FS,
                  group="S5-cancel-by-token", timeout=900, est_gb=3,
                  desc="coap_cancel_all_messages with NSTART %d, two Confirmables in flight%s: the freed slot goes to the held one" % (ns, " and one held" if ns == 2 else ""),
                  bounds={"nstart": ns, "in flight": 2, "held": 1 if ns == 2 else 0}))
    js.append(Job("S3-completion@rst-ping", "C07/c07.c", "c07_s1_response", UNITS, extra_src=EXTRA,
                  defines=["RTYPE=%d" % TYPES["rst"], "RCODE=0", "NODE=1", "PING_NODE"] + cuts(False)[0], remove_bodies=cuts(False)[1], unwind=18, flags=FS,
                  group="S3-completion", timeout=900, est_gb=3,
                  desc="RST answering the session's keep-alive ping (pong): the ping's NSTART slot is freed, no NACK", bounds={"type": "rst", "queue": "keep-alive ping"}))
    for nheld in (0, 1, 2, 3):
        js.append(Job("S4-session-failure@held%d" % nheld, "C07/c07.c", "c08_s4_session_failure", UNITS, extra_src=EXTRA,
                      defines=["NHELD=%d" % nheld, "INFLIGHT=0", "FPROTO=1"] + CUT_CLIENT, remove_bodies=RB_CLIENT, unwind=18, flags=FS, group="S4-session-failure",
                      timeout=1500, est_gb=3, tier="quick" if nheld <= 2 else "thorough",
                      desc="session failure with %d held message(s): one NACK per held Confirmable, nothing sent" % nheld, bounds={"held": nheld}))
    # retransmission and give-up keep the NSTART bookkeeping exact (same harness as C06-S2: con_active unchanged by a
    # retransmission, one slot freed by a give-up)
    import copy
    from jobs import C06
    for j in C06.jobs():
        if j.name.startswith("S2-retransmit"):
            j2 = copy.deepcopy(j)
            j2.name = "S4-retransmit" + j.name[len("S2-retransmit"):]
            j2.group = "S4-retransmit"
            js.append(j2)
    return js
