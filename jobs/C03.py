from verif.core import Job

UNITS = ["coap_pdu.c", "coap_option.c", "coap_encode.c"]
EXTRA = ["common/env.c", "ref/ref_codec.c"]
UD = ["LIBCOAP_VERIF_NO_PARSE_DUMP"]
PROTOS = {"udp": 1, "tcp": 3, "ws": 5}

META = {
    "bounds": "L jobs: every option header / message header byte pattern, sizes up to 70000 (full 16-bit delta and "
              "17-bit length ranges). B1: every byte string of length n per transport; single pass n<=8 quick / <=14 "
              "thorough, with accessor walk n<=6 quick / <=11 thorough. Loop bounds by --unwind n+2 with unwinding assertions.",
    "outside": "whole messages longer than the per-job n (covered only through the L2 step + loop-glue argument); "
               "TCP inputs are assumed to be exactly one message long (segmentation is C05)",
    "assumptions": [
        "reference decoder harness/ref/ref_codec.c (written from RFC 7252 s3/5.10, RFC 8323 s3/5, RFC 8974 s2.1) is the oracle",
        "coap_log_impl stubbed empty, log level arbitrary 0..8; allocator = malloc never failing; rejected-PDU hex dump cut by hook LIBCOAP_VERIF_NO_PARSE_DUMP (its own safety is decided in C02)",
        "CBMC memory model, x86-64 widths, -DNDEBUG as in the RelWithDebInfo build",
    ],
}


def jobs():
    js = []
    js.append(Job("L1-opt-parse", "C03/c03.c", "c03_l1_opt_parse", UNITS, extra_src=EXTRA, unit_defines=UD, unwind=2,
                  desc="coap_opt_parse/coap_opt_length/coap_opt_value == reference for every 5-byte header and avail<=70000",
                  bounds={"header_bytes": 5, "avail": "0..70000"}, timeout=300))
    js.append(Job("L2-next-option", "C03/c03.c", "c03_l2_next_option", UNITS, extra_src=EXTRA, unit_defines=UD, unwind=2,
                  desc="next_option_safe step from arbitrary running option number",
                  bounds={"running": "0..65535", "avail": "1..70000"}, timeout=300))
    js.append(Job("L2b-one-option-message", "C03/c03.c", "c03_l2_one_option_message", UNITS, extra_src=EXTRA,
                  unit_defines=UD, unwind=3, flags=["--arrays-uf-always"],
                  desc="coap_pdu_parse_opt on a single-option message of any size: length limits on the true length, all codes",
                  bounds={"option_length": "0..65804", "number": "0..65535", "code": "1..255"}, timeout=600))
    for pn, pv in PROTOS.items():
        js.append(Job("L3-header@%s" % pn, "C03/c03.c", "c03_l3_header", UNITS, extra_src=EXTRA, unit_defines=UD,
                      defines=["PROTO=%d" % pv], unwind=2,
                      desc="coap_pdu_parse_header_size/parse_header/parse_size == reference, all first 8 bytes, total<=70000",
                      bounds={"total": "1..70000"}, timeout=300))
    # B1 single pass
    for pn, pv in PROTOS.items():
        lo = 0 if pn != "udp" else 0
        for n in range(1, 15):
            tier = "quick" if n <= 8 else "thorough"
            d = ["PROTO=%d" % pv, "N=%d" % n]
            if (pn == "udp" and n < 4) or n < 2:
                d.append("WIT_ANY")
            js.append(Job("B1-parse@%s-n%02d" % (pn, n), "C03/c03.c", "c03_b1_parse", UNITS, extra_src=EXTRA,
                          unit_defines=UD, defines=d, unwind=n + 2, tier=tier, group="B1-parse@" + pn,
                          desc="coap_pdu_parse == ref_decode on every %d-byte %s input (single pass)" % (n, pn),
                          bounds={"n": n, "proto": pn}, timeout=2400 if n > 8 else 600, mem_gb=16))
    # B1 with accessor walk
    for pn, pv in PROTOS.items():
        for n in range(4 if pn == "udp" else 2, 12):
            tier = "quick" if n <= 6 else "thorough"
            d = ["PROTO=%d" % pv, "N=%d" % n, "WALK"]
            js.append(Job("B1w-walk@%s-n%02d" % (pn, n), "C03/c03.c", "c03_b1_parse", UNITS, extra_src=EXTRA,
                          unit_defines=UD, defines=d, unwind=n + 2, tier=tier, group="B1w-walk@" + pn,
                          desc="parse + coap_option_next/coap_opt_length/coap_opt_value/coap_get_data == reference, %d-byte %s input" % (n, pn),
                          bounds={"n": n, "proto": pn}, timeout=2400 if n > 6 else 600, mem_gb=16))
    return js
