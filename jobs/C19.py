from verif.core import Job
from jobs.C07 import UNITS, EXTRA, FS, CUT_CLIENT, RB_CLIENT

META = {
    "bounds": "the libcoap-owned gates around the (D)TLS handshake: S1 coap_send_internal on a DTLS session whose handshake is not "
              "finished (every nstart/con_active, CON and NON, 0-1 message already held): nothing reaches l_write, the message is "
              "held in order; S2 coap_handle_dgram_for_proto with an arbitrary 8-byte datagram on a DTLS session (any session "
              "type, with/without TLS object): only the DTLS layer stubs are entered, never the cleartext CoAP datagram handler "
              "or dispatch; S3 handshake failure (coap_session_disconnected_lkd with TLS_FAILED / NOT_DELIVERABLE) with 0-3 held "
              "messages: exactly one NACK per held Confirmable, nothing transmitted; success path: coap_session_connected "
              "delivers held messages in order, once (C08-S2 harness on a DTLS session).",
    "outside": "the handshake itself and its credential decision (GnuTLS, binary only: not encodable) - 'the session never becomes "
               "established with differing keys' is NOT claimed; the PSK callbacks in coap_gnutls.c; the ClientHello pre-filter in "
               "coap_endpoint_get_session; TLS (stream) sessions' record layer",
    "assumptions": ["coap_dtls_hello / coap_dtls_receive / coap_dtls_get_overhead are stubs (GnuTLS side)", "l_write stands for the layer below the CoAP session layer"],
}

DTLS = 2


def jobs():
    js = []
    for st, sv in (("con", 0), ("non", 1)):
        for delayed in (0, 1):
            js.append(Job("S1-submit-during-handshake@%s-held%d" % (st, delayed), "C07/c07.c", "c08_s1_submit", UNITS, extra_src=EXTRA,
                          defines=["STYPE=%d" % sv, "DELAYED=%d" % delayed, "SPROTO=%d" % DTLS, "WIT_BLOCKED"] + CUT_CLIENT, remove_bodies=RB_CLIENT,
                          unwind=18, flags=FS, group="S1-submit", timeout=900, est_gb=3,
                          desc="coap_send_internal(%s) on a DTLS session before the handshake completed: held, nothing written" % st.upper(),
                          bounds={"type": st, "held": delayed}))
    js.append(Job("S2-cleartext-injected", "C19/c19.c", "c19_s2_cleartext_injected", UNITS, extra_src=EXTRA,
                  defines=["UNREACH_HANDLE_REQUEST", "UNREACH_HANDLE_RESPONSE", "UNREACH_SIGNALING", "UNREACH_SESSION_FREE"],
                  remove_bodies=["__CPROVER_file_local_coap_net_c_handle_request", "__CPROVER_file_local_coap_net_c_handle_response",
                                 "__CPROVER_file_local_coap_net_c_handle_signaling", "coap_session_free", "coap_proxy_remove_association",
                                 "coap_dispatch", "coap_handle_dgram"],
                  unwind=18, flags=FS, timeout=900, est_gb=3,
                  desc="arbitrary datagram at a DTLS session: only the DTLS layer sees it", bounds={"n": 8}))
    for nheld in (0, 1, 2, 3):
        js.append(Job("S3-handshake-failure@held%d" % nheld, "C07/c07.c", "c08_s4_session_failure", UNITS, extra_src=EXTRA,
                      defines=["NHELD=%d" % nheld, "INFLIGHT=0", "FPROTO=%d" % DTLS] + CUT_CLIENT, remove_bodies=RB_CLIENT, unwind=18, flags=FS,
                      group="S3-handshake-failure", timeout=1500, est_gb=3, tier="quick" if nheld <= 2 else "thorough",
                      desc="DTLS handshake failure with %d held message(s): one NACK per held Confirmable, nothing in clear" % nheld, bounds={"held": nheld}))
    for held in (1, 2):
        js.append(Job("S4-success-drain@held%d" % held, "C07/c07.c", "c08_s2_drain", UNITS, extra_src=EXTRA, defines=["HELD=%d" % held, "DPROTO=%d" % DTLS] + CUT_CLIENT,
                      remove_bodies=RB_CLIENT, unwind=18, flags=FS, group="S4-success-drain", timeout=1500, est_gb=3,
                      desc="handshake success: %d held messages delivered in order, once" % held, bounds={"held": held}))
    for side in ("server", "client"):
        js.append(Job("L1-psk-%s-callback" % side, "C19/c19g.c", "c19_l1_psk_%s" % side, UNITS + ["coap_gnutls.c"], extra_src=EXTRA,
                      defines=CUT_CLIENT, remove_bodies=RB_CLIENT, unwind=18, unwindset={"strlen.0": 4}, flags=FS, group="L1-psk-callback", timeout=900, est_gb=3,
                      desc="psk_%s_callback (coap_gnutls.c): refused identity/hint => -1 and no key material; accepted => exactly the chosen key" % side,
                      bounds={"key_length": 3, "identity": "1 symbolic byte"}))
    return js
