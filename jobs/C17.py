from verif.core import Job

UNITS = ["coap_subscribe.c", "coap_str.c", "coap_pdu.c", "coap_option.c", "coap_encode.c", "coap_uri.c", "coap_resource.c", "coap_threadsafe.c", "coap_net.c"]
EXTRA = ["common/env.c", "ref/memfs.c"]
FS = ["--max-field-sensitivity-array-size", "200"]
UD = ["LIBCOAP_VERIF_NO_PARSE_DUMP"]

META = {
    "bounds": "B1: coap_op_dyn_resource_added / coap_op_resource_deleted on a store holding 0-2 records (names 'a','b', 4 symbolic "
              "packet bytes each) and coap_op_obs_cnt_track_observe on a counter file with one line (concrete counter values: scripted), with EVERY crash point enumerated "
              "(one job per k: the process dies before the k-th disk-changing stdio call, or not at all; record bytes symbolic): the file under the real name is "
              "the complete old or the complete new image; B2: add a, add b, restart: coap_op_dyn_resource_load_disk replays both "
              "creating requests; L1: saved counter 0..9999, save_freq 1..10: first Observe value after "
              "restart exceeds every value that can have been sent since the save (every state satisfying the counter invariant); S2: one "
              "coap_resource_notify_observers_lkd step from every counter state (Observe 0..2^24-1) preserves that invariant.",
    "outside": "durability on a real file system (fflush is not fsync; directory entries); restoring the observe-subscription file "
               "(coap_op_observe_load_disk -> coap_persist_observe_add needs endpoint/session lookup with sockets: not encoded; its WRITE side, "
               "coap_op_observe_added/deleted, is covered by B1o); records larger than the model's files (96 / 320 bytes); OSCORE association data",
    "assumptions": ["stdio replaced by harness/ref/memfs.c: ISO C stream-mode semantics (a stream opened 'a' or 'w' cannot be read), atomic rename, "
                    "two write models, each its own job family: unbuffered (every fwrite reaches the disk at once) and fully buffered (data reaches the disk only at fflush/fclose, a crash loses it); "
                    "crash = disk frozen before the k-th disk-changing call",
                    "atoi modelled in the harness; uthash lookup modelled (returns no resource after restart / the observed resource)"],
}


def jobs():
    js = []
    # number of disk-changing stdio calls per update: fopen(w+) 1, record writes 5 each, rename 1 (+ remove on failure)
    for op, on, nops in ((0, "add-second", 12), (1, "delete-first", 7), (2, "add-first", 7)):
        for crash in range(-1, nops + 1):
            quick = crash in (-1, 0, 1, nops - 1, nops) or (op == 0 and crash in (5, 6))
            js.append(Job("B1-dyn-resource@%s-crash%d" % (on, crash), "C17/c17.c", "c17_b1_dyn_resource", UNITS, extra_src=EXTRA, unit_defines=UD,
                          defines=["OP=%d" % op, "CRASH=%d" % crash], unwind=100, flags=FS, group="B1-dyn-resource@" + on, timeout=900, est_gb=3,
                          native_replay=False, remove_bodies=["coap_get_resource_from_uri_path_lkd"], tier="quick" if quick else "thorough",
                          desc="dynamic-resource store, %s, process dies before disk-changing call #%d: old or new image" % (on, crash),
                          bounds={"op": on, "crash": crash}))
    # the same updates on fully buffered streams (data reaches the disk only at fflush/fclose): disk-changing calls are
    # fopen(w+), fflush, rename (+ remove on failure)
    for op, on in ((0, "add-second"), (1, "delete-first"), (2, "add-first")):
        for crash in range(0, 4):
            js.append(Job("B1-dyn-resource-buffered@%s-crash%d" % (on, crash), "C17/c17.c", "c17_b1_dyn_resource", UNITS, extra_src=EXTRA, unit_defines=UD,
                          defines=["OP=%d" % op, "CRASH=%d" % crash, "MEMFS_BUFFERED"], unwind=100, flags=FS, group="B1-dyn-resource-buffered@" + on, timeout=900, est_gb=3,
                          native_replay=False, remove_bodies=["coap_get_resource_from_uri_path_lkd"],
                          desc="dynamic-resource store on buffered streams, %s, process dies before disk-changing call #%d: old or new image" % (on, crash),
                          bounds={"op": on, "crash": crash, "stdio": "fully buffered"}))
    # the observe-subscription file, both stdio models (buffered: 3 disk-changing calls; unbuffered: 1 + 7 per record + rename)
    fso = ["--max-field-sensitivity-array-size", "400"]
    for op, on, nops in ((0, "add-second", 16), (1, "delete-first", 9), (2, "add-first", 9)):
        for buffered, crashes in ((1, range(-1, 4)), (0, range(0, nops + 1))):
            for crash in crashes:
                quick = buffered or crash in (0, 1, nops - 1, nops)
                js.append(Job("B1-observe%s@%s-crash%d" % ("-buffered" if buffered else "", on, crash), "C17/c17.c", "c17_b1_observe", UNITS, extra_src=EXTRA, unit_defines=UD,
                              defines=["OP=%d" % op, "CRASH=%d" % crash, "MEMFS_CAP=320"] + (["MEMFS_BUFFERED"] if buffered else []), unwind=330, flags=fso,
                              group="B1-observe%s@%s" % ("-buffered" if buffered else "", on), timeout=900, est_gb=3, native_replay=False,
                              remove_bodies=["coap_get_resource_from_uri_path_lkd"], tier="quick" if quick else "thorough",
                              desc="observe-subscription file (%s stdio), %s, process dies before disk-changing call #%d: old or new set" % ("buffered" if buffered else "unbuffered", on, crash),
                              bounds={"op": on, "crash": crash, "stdio": "fully buffered" if buffered else "unbuffered"}))
    for crash in range(0, 3):
        js.append(Job("B1-obs-cnt-buffered@crash%d" % crash, "C17/c17.c", "c17_b1_obs_cnt", UNITS, extra_src=EXTRA, unit_defines=UD, defines=["CRASH=%d" % crash, "MEMFS_BUFFERED"],
                      unwind=100, flags=["--max-field-sensitivity-array-size", "1600"], timeout=900, est_gb=3, native_replay=False, group="B1-obs-cnt-buffered",
                      remove_bodies=["coap_get_resource_from_uri_path_lkd"],
                      desc="observe-counter file update on buffered streams, process dies before disk-changing call #%d" % crash, bounds={"crash": crash, "stdio": "fully buffered"}))
    for crash in range(-1, 6):
        js.append(Job("B1-obs-cnt@crash%d" % crash, "C17/c17.c", "c17_b1_obs_cnt", UNITS, extra_src=EXTRA, unit_defines=UD, defines=["CRASH=%d" % crash],
                      unwind=100, flags=["--max-field-sensitivity-array-size", "1600"], timeout=900, est_gb=3, native_replay=False, group="B1-obs-cnt",
                      remove_bodies=["coap_get_resource_from_uri_path_lkd"], tier="quick" if crash in (-1, 0, 2, 4) else "thorough",
                      desc="observe-counter file update, process dies before disk-changing call #%d" % crash, bounds={"crash": crash}))
    js.append(Job("B2-restore", "C17/c17.c", "c17_b2_restore", UNITS, extra_src=EXTRA, unit_defines=UD, unwind=100, flags=FS, timeout=1800, est_gb=4, native_replay=False,
                  remove_bodies=["coap_get_resource_from_uri_path_lkd"],
                  desc="add a, add b, restart: both dynamic resources re-created", bounds={"records": 2}))
    for fr in range(1, 11):
        js.append(Job("L1-counter@freq%d" % fr, "C17/c17.c", "c17_l1_counter", UNITS, extra_src=EXTRA, unit_defines=UD, defines=["FREQ=%d" % fr], unwind=20,
                      flags=["--max-field-sensitivity-array-size", "1600"], timeout=1800, est_gb=4, native_replay=False, group="L1-counter", tier="quick" if fr in (1, 3, 10) else "thorough",
                      remove_bodies=["coap_get_resource_from_uri_path_lkd"],
                      desc="restored Observe counter + 1 > every value sent since the save (save_freq %d)" % fr, bounds={"saved": "0..9999", "save_freq": fr}))
    for fr in (1, 2, 3, 5, 7, 10):
        js.append(Job("S2-counter-step@freq%d" % fr, "C17/c17.c", "c17_s2_counter_step", UNITS, extra_src=EXTRA, unit_defines=UD, defines=["FREQ=%d" % fr], unwind=20,
                      remove_bodies=["coap_get_resource_from_uri_path_lkd", "coap_update_io_timer"], timeout=900, est_gb=3, native_replay=False, group="S2-counter-step",
                      desc="one coap_resource_notify_observers_lkd step from every counter state: the file is never a full save interval behind (save_freq %d)" % fr,
                      bounds={"observe": "0..2^24-1", "save_freq": fr}))
    for fr in (1, 5):
        js.append(Job("S3-registration@freq%d" % fr, "C17/c17.c", "c17_s3_registration", UNITS, extra_src=EXTRA, unit_defines=UD, defines=["FREQ=%d" % fr, "C17_REGISTRATION"],
                      unwind=20, remove_bodies=["coap_get_resource_from_uri_path_lkd", "coap_update_io_timer", "coap_show_pdu"], timeout=900, est_gb=3,
                      native_replay=False, group="S3-registration", flags=FS,
                      desc="coap_add_observer of a first subscriber: the counter in use is handed to the tracking callback (save_freq %d)" % fr,
                      bounds={"observe": "0..2^24-1", "save_freq": fr}))
    return js
