from verif.core import Job

UNITS = ["coap_subscribe.c", "coap_str.c", "coap_pdu.c", "coap_option.c", "coap_encode.c", "coap_uri.c", "coap_resource.c", "coap_threadsafe.c", "coap_net.c"]
EXTRA = ["common/env.c", "ref/memfs.c"]
FS = ["--max-field-sensitivity-array-size", "200"]
UD = ["LIBCOAP_VERIF_NO_PARSE_DUMP"]

META = {
    "bounds": "B1: coap_op_dyn_resource_added / coap_op_resource_deleted on a store holding 0-2 records (names 'a','b', 4 symbolic "
              "packet bytes each) and coap_op_obs_cnt_track_observe on a counter file with one line (concrete counter values: scripted), with EVERY crash point enumerated "
              "(one job per k: the process dies before the k-th disk-changing stdio call, or not at all; record bytes symbolic): the file under the real name is "
              "the complete old or the complete new image; B2: add a, add b, restart: coap_op_dyn_resource_load_disk replays both "
              "creating requests; L1: saved counter 0..9999 (multiple of save_freq), save_freq 1..10: first Observe value after "
              "restart exceeds every value that can have been sent since the save.",
    "outside": "durability on a real file system (fflush is not fsync; directory entries); the observe-subscription file "
               "(coap_op_observe_added/deleted and coap_op_observe_load_disk -> coap_persist_observe_add needs endpoint/session lookup "
               "with sockets: not encoded in this version); records larger than the model's 96-byte files; OSCORE association data",
    "assumptions": ["stdio replaced by harness/ref/memfs.c: ISO C stream-mode semantics (a stream opened 'a' or 'w' cannot be read), atomic rename, "
                    "writes reach the disk immediately; crash = disk frozen before the k-th mutating call",
                    "atoi modelled in the harness; uthash lookup modelled (returns no resource after restart / the observed resource)"],
}


def jobs():
    js = []
    # number of disk-changing stdio calls per update: fopen(w+) 1, record writes 5 each, rename 1 (+ remove on failure)
    for op, on, nops in ((0, "add-second", 12), (1, "delete-first", 7), (2, "add-first", 7)):
        for crash in range(-1, nops + 1):
            quick = crash in (-1, 0, 1, nops - 1, nops) or (op == 0 and crash in (5, 6))
            js.append(Job("B1-dyn-resource@%s-crash%d" % (on, crash), "C17/c17.c", "c17_b1_dyn_resource", UNITS, extra_src=EXTRA, unit_defines=UD,
                          defines=["OP=%d" % op, "CRASH=%d" % crash], unwind=100, flags=FS, group="B1-dyn-resource@" + on, timeout=900, est_gb=3,
                          native_replay=False, remove_bodies=["coap_get_resource_from_uri_path_lkd"], tier="quick" if quick else "thorough",
                          desc="dynamic-resource store, %s, process dies before disk-changing call #%d: old or new image" % (on, crash),
                          bounds={"op": on, "crash": crash}))
    for crash in range(-1, 6):
        js.append(Job("B1-obs-cnt@crash%d" % crash, "C17/c17.c", "c17_b1_obs_cnt", UNITS, extra_src=EXTRA, unit_defines=UD, defines=["CRASH=%d" % crash],
                      unwind=100, flags=["--max-field-sensitivity-array-size", "1600"], timeout=900, est_gb=3, native_replay=False, group="B1-obs-cnt",
                      remove_bodies=["coap_get_resource_from_uri_path_lkd"], tier="quick" if crash in (-1, 0, 2, 4) else "thorough",
                      desc="observe-counter file update, process dies before disk-changing call #%d" % crash, bounds={"crash": crash}))
    js.append(Job("B2-restore", "C17/c17.c", "c17_b2_restore", UNITS, extra_src=EXTRA, unit_defines=UD, unwind=100, flags=FS, timeout=1800, est_gb=4, native_replay=False,
                  remove_bodies=["coap_get_resource_from_uri_path_lkd"],
                  desc="add a, add b, restart: both dynamic resources re-created", bounds={"records": 2}))
    for fr in range(1, 11):
        js.append(Job("L1-counter@freq%d" % fr, "C17/c17.c", "c17_l1_counter", UNITS, extra_src=EXTRA, unit_defines=UD, defines=["FREQ=%d" % fr], unwind=20,
                      flags=["--max-field-sensitivity-array-size", "1600"], timeout=1800, est_gb=4, native_replay=False, group="L1-counter", tier="quick" if fr in (1, 3, 10) else "thorough",
                      remove_bodies=["coap_get_resource_from_uri_path_lkd"],
                      desc="restored Observe counter + 1 > every value sent since the save (save_freq %d)" % fr, bounds={"saved": "0..9999", "save_freq": fr}))
    return js
