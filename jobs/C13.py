from verif.core import Job

UNITS = ["coap_threadsafe.c", "coap_net.c", "coap_session.c"]
EXTRA = ["common/env.c"]
CFGS = {"cmake": None, "autotools": {"COAP_THREAD_SAFE": "1"}}
WRAPPERS = {0: "coap_session_reference", 1: "coap_delete_resource-nullctx", 2: "coap_delete_resource", 3: "coap_resource_notify_observers",
            4: "coap_session_release", 5: "coap_send"}
FORMS = {0: "callback", 1: "callback_ret", 2: "callback_release", 3: "callback_ret_release", 4: "event-call-site", 5: "invert"}

META = {
    "bounds": "B0: the public wrapper coap_session_reference() against the coap_defines.h regenerated from the current "
              "CMakeLists.txt (and against COAP_THREAD_SAFE=1 as autotools defines it); S1: every lock/callback macro form and the "
              "real event call site coap_handle_event_lkd, one outermost API call with a callback that re-enters the API 1..2 "
              "times; B1: two threads (CBMC ASYNC), one locked read-modify-write each, optional event callback, all interleavings (mutual exclusion, "
              "completion, no self-deadlock, no foreign unlock); S3: coap_io_process_with_fds_lkd around epoll_wait for every wait result (events, "
              "timeout, EINTR, other error, full event array up to 3 rounds): lock free while sleeping, held whenever library state is touched and at return.",
    "outside": "data-race freedom of all library state behind the lock for 2..8 threads (CBMC's concurrency encoding rejects "
               "pointer-rich code); the select() variant of the I/O loop; wrappers other than the representative one",
    "assumptions": ["pthread_mutex_lock/unlock/init and pthread_self are harness models on a ghost owner word (lock = atomic wait-until-free-then-take)",
                    "coap_started = 1 (coap_startup() was called)"],
}


def jobs():
    js = []
    for cn, patch in CFGS.items():
        tier = "quick"
        for w, wn in WRAPPERS.items():
            js.append(Job("B0-wrapper-locks-%s@%s" % (wn, cn), "C13/c13.c", "c13_b0_wrapper_locks", UNITS + ["coap_resource.c"], extra_src=EXTRA, cfg_patch=patch,
                          defines=["B0_WRAPPERS", "WRAPPER=%d" % w],
                          remove_bodies=["coap_session_reference_lkd", "coap_delete_resource_lkd", "coap_resource_notify_observers_lkd",
                                         "coap_session_release_lkd", "coap_send_lkd"], unwind=3, tier=tier, group="B0", native_replay=False,
                          desc="capability vs configuration (%s): %s holds the global lock iff support is advertised" % (cn, wn),
                          bounds={"config": cn, "wrapper": wn}))
        for f, fn in FORMS.items():
            for nest in (1, 2):
                js.append(Job("S1-%s-nest%d@%s" % (fn, nest, cn), "C13/c13.c", "c13_s1_lock_protocol", UNITS, extra_src=EXTRA,
                              cfg_patch=patch, defines=["FORM=%d" % f, "NEST=%d" % nest], unwind=4, group="S1", native_replay=False,
                              remove_bodies=["coap_session_reference_lkd"],
                              tier="quick" if nest == 1 else "thorough",
                              desc="lock protocol, form %s, %d nested API call(s) from the callback (%s config)" % (fn, nest, cn),
                              bounds={"form": fn, "nested": nest, "config": cn}))
        for e1, e2 in ((0, 0), (1, 0), (1, 1)):
            js.append(Job("B1-two-threads-ev%d%d@%s" % (e1, e2, cn), "C13/c13.c", "c13_b1_two_threads", UNITS, extra_src=EXTRA,
                          cfg_patch=patch, defines=["TWO_THREADS", "EVENT1=%d" % e1, "EVENT2=%d" % e2, "NEST=1"], unwind=4, group="B1",
                          remove_bodies=["coap_session_reference_lkd"], native_replay=False,
                          witness_violation="B1 no schedule lets both threads complete: a thread blocks forever on the global lock",
                          tier="quick" if (e1, e2) != (1, 1) else "thorough", timeout=900,
                          desc="two threads, real lock functions, event callback in thread1=%d thread2=%d (%s config)" % (e1, e2, cn),
                          bounds={"threads": 2, "config": cn}))
    # S2: the callback call sites of the protocol layer (CMake configuration = the one /repo builds): the recording handlers of
    # netenv.h assert "entered inside a coap_lock_callback* section or with the lock released" (-DC13_CALLBACK_CHECK)
    import copy
    from jobs import C06, C07, C08
    for what, entry in (("pong", "c13_s2_pong"), ("ping", "c13_s2_ping")):
        js.append(Job("S2-callsite-%s" % what, "C13/c13cs.c", entry, C07.UNITS, extra_src=C07.EXTRA, defines=["C13_CALLBACK_CHECK"] + C07.CUT_CLIENT,
                      remove_bodies=C07.RB_CLIENT, unwind=18, flags=C07.FS, group="S2-callsite", timeout=900, est_gb=3,
                      desc="%s handler call site in coap_dispatch: callback entered through coap_lock_callback" % what, bounds={"callsite": what}))
    picks = (("C07", C07, ("S1-response@con-same-mid", "S1-response@non-nonode", "S1-empty@rst-same-mid")),
             ("C08", C08, ("S4-session-failure@held1", "S4-session-failure@held2")),
             ("C06", C06, ("S2-retransmit@other0-giveup",)))
    for pn, mod, names in picks:
        for j in mod.jobs():
            if j.name in names:
                j2 = copy.deepcopy(j)
                j2.name = "S2-callsite-%s-%s" % (pn, j.name)
                j2.group = "S2-callsite"
                j2.defines = list(j.defines) + ["C13_CALLBACK_CHECK"]
                j2.tier = "quick"
                j2.kf = None
                js.append(j2)
    # S3: the unlock / re-lock around the blocking wait of the I/O loop (thread-safe configuration)
    js.append(Job("S3-blocking-wait@autotools", "C13/c13w.c", "c13_s3_blocking_wait", ["coap_io.c", "coap_threadsafe.c"], extra_src=EXTRA, cfg_patch=CFGS["autotools"],
                  defines=["ENV_LOG_QUIET"], remove_bodies=["coap_io_prepare_epoll_lkd", "coap_io_do_epoll_lkd"], unwind=6, group="S3", native_replay=False, timeout=600,
                  desc="coap_io_process_with_fds_lkd: lock released during epoll_wait and held again on every outcome (events, timeout, EINTR, error, full array)",
                  bounds={"epoll_wait result": "-1 (EINTR or other) .. COAP_MAX_EPOLL_EVENTS", "rounds": "<= 3"}))
    js.append(Job("S3-blocking-wait@cmake", "C13/c13w.c", "c13_s3_blocking_wait", ["coap_io.c", "coap_threadsafe.c"], extra_src=EXTRA, cfg_patch=None,
                  defines=["ENV_LOG_QUIET"], remove_bodies=["coap_io_prepare_epoll_lkd", "coap_io_do_epoll_lkd"], unwind=6, group="S3", native_replay=False, timeout=600,
                  desc="same, configuration generated by CMake", bounds={"rounds": "<= 3"}))
    return js
