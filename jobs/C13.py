from verif.core import Job

UNITS = ["coap_threadsafe.c", "coap_net.c", "coap_session.c"]
EXTRA = ["common/env.c"]
CFGS = {"cmake": None, "autotools": {"COAP_THREAD_SAFE": "1"}}
FORMS = {0: "callback", 1: "callback_ret", 2: "callback_release", 3: "callback_ret_release", 4: "event-call-site", 5: "invert"}

META = {
    "bounds": "B0: the public wrapper coap_session_reference() against the coap_defines.h regenerated from the current "
              "CMakeLists.txt (and against COAP_THREAD_SAFE=1 as autotools defines it); S1: every lock/callback macro form and the "
              "real event call site coap_handle_event_lkd, one outermost API call with a callback that re-enters the API 1..2 "
              "times; B1: two threads (CBMC ASYNC), one locked read-modify-write each, optional event callback, all interleavings.",
    "outside": "data-race freedom of all library state behind the lock for 2..8 threads (CBMC's concurrency encoding rejects "
               "pointer-rich code); deadlocks involving select/epoll; wrappers other than the representative one",
    "assumptions": ["pthread_mutex_lock/unlock/init and pthread_self are harness models on a ghost owner word (lock = atomic wait-until-free-then-take)",
                    "coap_started = 1 (coap_startup() was called)"],
}


def jobs():
    js = []
    for cn, patch in CFGS.items():
        tier = "quick"
        js.append(Job("B0-wrapper-locks@%s" % cn, "C13/c13.c", "c13_b0_wrapper_locks", UNITS, extra_src=EXTRA, cfg_patch=patch,
                      remove_bodies=["coap_session_reference_lkd"], unwind=3, tier=tier, group="B0", native_replay=False,
                      desc="capability vs configuration (%s): wrapper holds the global lock iff support is advertised" % cn,
                      bounds={"config": cn}))
        for f, fn in FORMS.items():
            for nest in (1, 2):
                js.append(Job("S1-%s-nest%d@%s" % (fn, nest, cn), "C13/c13.c", "c13_s1_lock_protocol", UNITS, extra_src=EXTRA,
                              cfg_patch=patch, defines=["FORM=%d" % f, "NEST=%d" % nest], unwind=4, group="S1", native_replay=False,
                              remove_bodies=["coap_session_reference_lkd"],
                              tier="quick" if nest == 1 else "thorough",
                              desc="lock protocol, form %s, %d nested API call(s) from the callback (%s config)" % (fn, nest, cn),
                              bounds={"form": fn, "nested": nest, "config": cn}))
        for e1, e2 in ((0, 0), (1, 0), (1, 1)):
            js.append(Job("B1-two-threads-ev%d%d@%s" % (e1, e2, cn), "C13/c13.c", "c13_b1_two_threads", UNITS, extra_src=EXTRA,
                          cfg_patch=patch, defines=["TWO_THREADS", "EVENT1=%d" % e1, "EVENT2=%d" % e2, "NEST=1"], unwind=4, group="B1",
                          remove_bodies=["coap_session_reference_lkd"], native_replay=False,
                          witness_violation="B1 no schedule lets both threads complete: a thread blocks forever on the global lock",
                          tier="quick" if (e1, e2) != (1, 1) else "thorough", timeout=900,
                          desc="two threads, real lock functions, event callback in thread1=%d thread2=%d (%s config)" % (e1, e2, cn),
                          bounds={"threads": 2, "config": cn}))
    return js
