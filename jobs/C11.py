from verif.core import Job
from jobs.C07 import UNITS, EXTRA, FS

CUT = ["UNREACH_HANDLE_REQUEST", "UNREACH_HANDLE_RESPONSE", "UNREACH_SIGNALING", "UNREACH_OSCORE", "UNREACH_SESSION_FREE",
       "UNREACH_BLOCK_CLIENT", "UNREACH_LG_CRCV", "ENV_LOG_QUIET"]
RB = ["__CPROVER_file_local_coap_net_c_handle_request", "__CPROVER_file_local_coap_net_c_handle_response",
      "__CPROVER_file_local_coap_net_c_handle_signaling", "coap_session_free", "coap_proxy_remove_association",
      "coap_block_new_lg_crcv", "coap_handle_response_send_block", "coap_handle_response_get_block"]

META = {
    "bounds": "L1: coap_resource_notify_observers_lkd for every Observe value 0..2^24-1; S1: one coap_notify_observers run over "
              "1 or 2 observers (concrete-shape stored GET, symbolic tokens) from every state of resource dirty/partiallydirty, "
              "NOTIFY_CON/NON flag, observer dirty, non_cnt 0..5, con_active 0..nstart, nstart 1..3; S3: deregistration through "
              "coap_delete_observer, failed Confirmable notification, handler error response, Reset in reply to a notification "
              "(real coap_dispatch), loss of a session holding two observations (coap_delete_observers), each followed by a further change + run - the S3 jobs use concrete tokens and message ids (which list "
              "element is selected is pointer-valued control flow), i.e. they are scripted executions whose memory/ownership "
              "obligations are decided by the model checker, not universally quantified claims. S4: coap_check_notify_lkd from every "
              "state of observe_pending, NOTIFY_CON/NON, non_cnt 0..5, con_active 0..nstart, nstart 1..3 (one resource, one dirty observer).",
    "outside": "registration (coap_add_observer: depends on a SHA-256 cache key computed in GnuTLS; not encoded in this version); "
               "more than 2 observers (induction over the subscriber loop); notifications larger than one block; persistence call-outs (C17); "
               "log level fixed to 0 in these jobs (the debug branch formats with snprintf)",
    "assumptions": ["uthash iteration contract: RESOURCES_ITER follows hh.next from context->resources (hand-linked single resource)",
                    "GET handler, l_write, clock stubs; block_mode = 0"],
}


def jobs():
    js = [Job("L1-change", "C11/c11.c", "c11_l1_change", UNITS, extra_src=EXTRA, defines=CUT, remove_bodies=RB, unwind=18, flags=FS,
              desc="coap_resource_notify_observers_lkd: Observe value +1 mod 2^24, serial-greater, pending flags", est_gb=3,
              bounds={"observe": "0..2^24-1"})]
    for nobs, wb, ov in ((1, 0, 5), (1, 1, 0), (1, 0, 0x1234), (1, 0, 0xFFFFFF), (2, 0, 0x123456), (2, 1, 300)):
        if True:
            js.append(Job("S1-notify@obs%d-%s-v%x" % (nobs, "blocked" if wb else "sent", ov), "C11/c11.c", "c11_s1_notify", UNITS, extra_src=EXTRA,
                          defines=["NOBS=%d" % nobs, "OBSVAL=%d" % ov] + (["WIT_BLOCKED"] if wb else []) + CUT, remove_bodies=RB, unwind=18, flags=FS,
                          group="S1-notify", timeout=1500, est_gb=4,
                          desc="one notification run over %d observer(s): token, Observe value, CON/NON rule, pending when blocked" % nobs,
                          bounds={"observers": nobs}))
    for pw, pn in ((0, "delete-observer"), (1, "failed-notify"), (2, "handler-error"), (3, "reset"), (4, "session-lost")):
        js.append(Job("S3-deregister@%s" % pn, "C11/c11.c", "c11_s3_deregister", UNITS, extra_src=EXTRA, defines=["PATHWAY=%d" % pw] + CUT,
                      remove_bodies=RB, unwind=18, flags=FS, group="S3-deregister", timeout=1500, est_gb=4,
                      desc="deregistration by %s: entry gone, reference released once, no further notification" % pn, bounds={"pathway": pn}))
    js.append(Job("S4-check-notify", "C11/c11.c", "c11_s4_check_notify", UNITS, extra_src=EXTRA, defines=CUT, remove_bodies=RB, unwind=18, flags=FS,
                  timeout=1500, est_gb=4, desc="coap_check_notify_lkd: a deferred notification is retried and stays pending while the observer is still blocked",
                  bounds={"observers": 1, "resources": 1}))
    return js
