from verif.core import Job

UNITS = ["coap_pdu.c", "coap_option.c", "coap_encode.c"]
EXTRA = ["common/env.c", "ref/ref_codec.c"]
UD = ["LIBCOAP_VERIF_NO_PARSE_DUMP"]
INSERT, UPDATE, REMOVE, TOKEN = 1, 2, 3, 4
EN = {1: "insert", 2: "update", 3: "remove", 4: "token"}

META = {
    "bounds": "one edit (coap_insert_option / coap_update_option / coap_remove_option / coap_update_token) from a start "
              "message with K<=3 options whose numbers/lengths come from the boundary catalogue in jobs/C04.py (every "
              "delta-rewrite case of remove, every header-shrink case of insert, length changes across 12/13, token "
              "lengths across 12/13 and 255/256/268/269), start message built through the API (headroom) or parsed from the "
              "wire (exact allocation: growth forces realloc), with/without payload; all token/value/payload bytes, code "
              "and mid symbolic per query. Edit sequences are covered by induction: every step starts from an arbitrary-content "
              "message of the shape family and ends in a message that satisfies the same accessor-level model.",
    "outside": "option numbers/lengths outside the catalogue; more than 3 pre-existing options; edit sequences explored as "
               "sequences (only the inductive step is decided)",
    "assumptions": ["abstract (token, ordered option list, payload) model in harness/common/pdu_model.h is the oracle; "
                    "reference decoder ref_codec.c re-decodes the edited bytes",
                    "allocator never fails; log stub"],
}

# (base options, payload len, token len, form, edit, number, new len, tier)
CASES = []


def add(base, pl, tkl, form, edit, en, el, tier="quick"):
    CASES.append((base, pl, tkl, form, edit, en, el, tier))

# remove: the delta-rewrite cases (see coap_remove_option)
add([(3, 1), (5, 0)], 1, 2, 0, REMOVE, 3, 0)            # sum < 13
add([(10, 1), (15, 1)], 0, 0, 0, REMOVE, 10, 0)         # next grows to 1-byte ext
add([(10, 1), (15, 1)], 2, 4, 1, REMOVE, 10, 0)
add([(1, 1), (20, 2)], 1, 0, 0, REMOVE, 1, 0)           # next keeps 1-byte ext
add([(265, 1), (270, 1)], 1, 1, 0, REMOVE, 265, 0)      # next grows to 2-byte ext from nibble
add([(200, 1), (300, 1)], 0, 0, 1, REMOVE, 200, 0)      # next grows from 1-byte to 2-byte ext
add([(10, 1), (400, 1)], 1, 0, 0, REMOVE, 10, 0)        # next keeps 2-byte ext
add([(11, 1), (15, 3)], 1, 0, 0, REMOVE, 15, 0)         # last
add([(11, 13)], 3, 8, 1, REMOVE, 11, 0)                 # only
add([(11, 1), (15, 1)], 1, 0, 0, REMOVE, 12, 0)         # absent
add([(11, 1), (11, 2), (15, 0)], 0, 1, 0, REMOVE, 11, 0)  # first of equals
add([(5, 0), (10, 0), (300, 0)], 2, 0, 1, REMOVE, 10, 0)
add([(0, 0), (12, 0), (13, 0)], 0, 0, 0, REMOVE, 0, 0, "thorough")
add([(0, 1), (13, 1)], 0, 0, 0, REMOVE, 0, 0, "thorough")
add([(12, 1), (281, 1)], 1, 0, 0, REMOVE, 12, 0, "thorough")
add([(256, 1), (268, 1), (269, 1)], 1, 2, 1, REMOVE, 268, 0, "thorough")
add([(65000, 1), (65535, 1)], 1, 0, 0, REMOVE, 65000, 0, "thorough")
add([(21, 268), (30, 1)], 1, 0, 0, REMOVE, 21, 0, "thorough")
# insert: header-shrink cases of the following option
add([(8, 1)], 1, 0, 0, INSERT, 3, 1)
add([(20, 1)], 1, 2, 0, INSERT, 15, 0)                  # 1-byte ext -> nibble
add([(100, 2)], 0, 0, 1, INSERT, 50, 1)                 # stays 1-byte ext
add([(300, 1)], 2, 0, 0, INSERT, 295, 2)                # 2-byte ext -> nibble
add([(300, 1)], 0, 1, 1, INSERT, 100, 13)               # 2-byte ext -> 1-byte ext
add([(600, 1)], 1, 0, 0, INSERT, 300, 1)                # stays 2-byte
add([(11, 1), (15, 1)], 1, 0, 0, INSERT, 11, 2)         # equal to existing repeatable: after it
add([(12, 1), (15, 1)], 1, 0, 0, INSERT, 12, 1)         # illegal repeat in the middle
add([(11, 1), (15, 1)], 1, 0, 1, INSERT, 15, 1)         # equals the last: append path, payload present
add([(11, 1), (15, 1)], 3, 4, 1, INSERT, 60, 4)         # greater than all with payload, forced growth
add([(4, 8), (14, 4), (60, 1)], 0, 0, 0, INSERT, 12, 2)
add([(1, 0)], 0, 0, 0, INSERT, 0, 0, "thorough")
add([(13, 1), (14, 1)], 1, 0, 0, INSERT, 0, 12, "thorough")
add([(269, 0)], 1, 0, 1, INSERT, 256, 14, "thorough")
add([(282, 1), (537, 1)], 0, 0, 0, INSERT, 281, 1, "thorough")
add([(5380, 1)], 1, 1, 1, INSERT, 2690, 270, "thorough")
add([(65535, 0)], 1, 0, 0, INSERT, 65534, 1, "thorough")
add([(2400, 1), (2500, 1)], 1, 0, 0, INSERT, 2049, 268, "thorough")
# update
add([(11, 3), (15, 1)], 1, 0, 0, UPDATE, 11, 3)         # same length
add([(11, 3), (15, 1)], 1, 2, 0, UPDATE, 11, 0)         # shorter
add([(11, 12), (15, 1)], 2, 0, 1, UPDATE, 11, 13)       # 12 -> 13: header grows, parsed form
add([(11, 13), (15, 1)], 1, 0, 0, UPDATE, 11, 12)       # 13 -> 12: header shrinks
add([(11, 1), (15, 1)], 1, 0, 0, UPDATE, 15, 4)         # last, with payload
add([(11, 1), (15, 1)], 0, 0, 1, UPDATE, 12, 2)         # absent -> insert
add([(11, 1), (11, 2)], 1, 0, 0, UPDATE, 11, 3)         # first of equals
add([(23, 1)], 0, 8, 1, UPDATE, 23, 3)
add([(300, 2), (301, 0)], 1, 0, 0, UPDATE, 300, 14, "thorough")
add([(2049, 268)], 1, 0, 1, UPDATE, 2049, 269, "thorough")
add([(2049, 269)], 1, 0, 0, UPDATE, 2049, 268, "thorough")
add([(1, 1), (2, 1), (3, 1)], 1, 0, 0, UPDATE, 2, 13, "thorough")
# token replacement (EL = new token length)
add([(11, 1)], 1, 0, 0, TOKEN, 0, 4)
add([(11, 1)], 1, 4, 0, TOKEN, 0, 0)
add([(11, 1), (15, 2)], 2, 8, 1, TOKEN, 0, 8)
add([(11, 1)], 1, 12, 0, TOKEN, 0, 13)                 # into the 1-byte extended form
add([(11, 1)], 0, 13, 1, TOKEN, 0, 12)
add([], 0, 1, 0, TOKEN, 0, 14)
add([(11, 1)], 1, 2, 0, TOKEN, 0, 256)                 # e_token_length = 257 does not fit 8 bit
add([(11, 1)], 1, 8, 1, TOKEN, 0, 269, "thorough")
add([(11, 1)], 1, 269, 0, TOKEN, 0, 268, "thorough")
add([(11, 1)], 1, 270, 0, TOKEN, 0, 3, "thorough")
add([(11, 1)], 0, 0, 1, TOKEN, 0, 255, "thorough")


# ---- systematic boundary grids (each job ~2 s): every pair of delta / length classes on both sides of 12/13 and 268/269
B = [1, 12, 13, 14, 268, 269, 270]
BQ = [1, 12, 13, 14, 269]          # quick subset
FREE = 2049                        # elective option number without a length limit


def grid():
    # insert E between prev (absent or 7) and N: delta of the inserted option d_ins, new delta of the follower d_new
    for d_new in B:
        for d_ins in [0] + B:
            for prev in (None, 7):
                if d_ins == 0 and prev is None:
                    continue
                p = 0 if prev is None else prev
                e = p + d_ins
                n = e + d_new
                base = ([(prev, 1)] if prev is not None else []) + [(n, 1)]
                if prev == e and not True:
                    continue
                quick = prev is None and d_new in BQ and d_ins in BQ
                if all(limit_ok(x, l) for x, l in base) and limit_ok(e, 1) and e != 16:
                    add(base, 1, 1, 1 if (d_new + d_ins) % 2 else 0, INSERT, e, 1, "quick" if quick else "thorough")
    # remove the first of two: deltas d1 (removed) and d2 (follower)
    for d1 in B:
        for d2 in B:
            a1, a2 = d1, d1 + d2
            for l1 in (0, 1):
                base = [(a1, l1 if limit_ok(a1, l1) else 1), (a2, 1)]
                if all(limit_ok(x, l) for x, l in base):
                    add(base, 1, 0, (d1 + d2 + l1) % 2, REMOVE, a1, 0, "quick" if (d1 in BQ and d2 in BQ and l1 == 1) else "thorough")
    # update: old length x new length
    L = [0, 1, 12, 13, 14, 268, 269, 270]
    LQ = [0, 12, 13, 14, 269]
    for lo in L:
        for ln in L:
            add([(FREE, lo), (FREE + 20, 1)], 1, 0, (lo + ln) % 2, UPDATE, FREE, ln, "quick" if (lo in LQ and ln in LQ) else "thorough")
    # token: old length x new length (RFC 8974 forms: <13, 13..268, >=269)
    T = [0, 1, 8, 12, 13, 14, 15, 16, 268, 269, 270, 271]
    TQ = [0, 8, 12, 13, 14, 15, 269]
    for to in T:
        for tn in T:
            add([(11, 1)], 1, to, (to + tn) % 2, TOKEN, 0, tn, "quick" if (to in TQ and tn in TQ) else "thorough")


LIMITS = {1: (0, 8), 3: (1, 255), 4: (1, 8), 5: (0, 0), 6: (0, 3), 7: (0, 2), 8: (0, 255), 9: (0, 255), 11: (0, 255), 12: (0, 2),
          14: (0, 4), 15: (0, 255), 16: (1, 1), 17: (0, 2), 20: (0, 255), 23: (0, 3), 27: (0, 3), 28: (0, 4), 35: (1, 1034),
          39: (1, 255), 60: (0, 4), 252: (0, 40), 258: (0, 1), 292: (0, 8)}


def limit_ok(n, l):
    lo, hi = LIMITS.get(n, (0, 65804))
    return lo <= l <= hi


def jobs():
    js = []
    if not getattr(jobs, "_grid_done", False):
        grid()
        jobs._grid_done = True
    seen = set()
    for (base, pl, tkl, form, edit, en, el, tier) in CASES:
        key = (tuple(base), pl, tkl, form, edit, en, el)
        if key in seen:
            continue
        seen.add(key)
        assert all(limit_ok(n, l) for n, l in base), ("catalogue violates an option length limit", base)
        assert edit in (REMOVE, TOKEN) or limit_ok(en, el), ("catalogue edit violates an option length limit", en, el)
        d = ["ENV_REALLOC_BYTELOOP", "K=%d" % len(base), "PL=%d" % pl, "TKL=%d" % tkl, "FORM=%d" % form, "EDIT=%d" % edit, "EN=%d" % en, "EL=%d" % el]
        for i, (n, l) in enumerate(base, 1):
            d += ["BN%d=%d" % (i, n), "BL%d=%d" % (i, l)]
        size = sum(l + 5 for _, l in base) + pl + tkl + el + 16
        if tier == "thorough" or size < 64:
            d.append("REPARSE")
        name = "%s@%s-p%d-t%d-%s-%d.%d" % (EN[edit], "_".join("%d.%d" % x for x in base) or "none", pl, tkl,
                                          "parsed" if form else "built", en, el)
        js.append(Job(name, "C04/c04.c", "c04_edit", UNITS, extra_src=EXTRA, unit_defines=UD, defines=d, unwind=16,
                      tier=tier, group=EN[edit], timeout=900, mem_gb=16,
                      flags=["--max-field-sensitivity-array-size", "300" if size < 240 else "1400"],
                      desc="%s %d (len %d) on %s message %s token %d payload %d" % (EN[edit], en, el, "parsed" if form else "built", base, tkl, pl),
                      bounds={"base": base, "payload": pl, "tkl": tkl, "form": "parsed" if form else "built", "edit": EN[edit], "number": en, "new_len": el}))
    return js
