from verif.core import Job

UNITS = ["coap_net.c", "coap_session.c", "coap_pdu.c", "coap_option.c", "coap_encode.c", "coap_io.c", "coap_resource.c",
         "coap_async.c", "coap_str.c", "coap_subscribe.c", "coap_block.c", "coap_cache.c", "coap_proxy.c", "coap_layers.c", "coap_threadsafe.c"]
EXTRA = ["common/env.c"]
FS = ["--max-field-sensitivity-array-size", "300"]

META = {
    "bounds": "L1: coap_calc_timeout for every random byte, ACK_TIMEOUT integer part 1..60 s, ACK_RANDOM_FACTOR integer part 1..4, fractional parts from an enumerated grid (quick 4, thorough 64 pairs); "
              "S2: one coap_retransmit step for every retransmit_cnt <= max_retransmit <= 8, timeout 1..300000 ticks, clock, "
              "con_active/nstart 1..4, with 0 or 1 other queued message of another session; S3: timer scan of "
              "coap_io_prepare_io_lkd over queues of 0..3 nodes with arbitrary relative times < 2^29 ticks and any clock; "
              "S4: coap_insert_node/coap_pop_next/coap_remove_from_queue on queues of 0..3 nodes, arbitrary times/mids.",
    "outside": "whole exchanges as event sequences (covered by composition of the steps: S3 hands exactly the due nodes to S2, "
               "S2 re-queues with the doubled timeout or ends in one NACK, S4 keeps all other deadlines); ACK/RST arrival through "
               "coap_dispatch (decided under C07/C08); DTLS; more than 3 queued nodes; ping_timeout clamp (ping_timeout = 0)",
    "assumptions": ["l_write, nack/response/event handlers, clock and PRNG are harness stubs; coap_show_pdu/coap_session_str empty",
                    "S3 replaces coap_retransmit by a counting stub (its behaviour is S2's subject)",
                    "Q.6 fixed-point rounding of the session parameters is tolerated in L1 (one quantum of each parameter), exact for representable parameters such as the RFC defaults"],
}


def jobs():
    js = []
    fr_q = [(0, 500), (0, 0), (500, 999), (123, 60)]
    fr_t = [(a, b) for a in (0, 1, 125, 250, 499, 500, 875, 999) for b in (0, 1, 125, 250, 499, 500, 875, 999)]
    for (af, rf) in fr_q + [x for x in fr_t if x not in fr_q]:
        js.append(Job("L1-calc-timeout@at.%03d-rf.%03d" % (af, rf), "C06/c06.c", "c06_l1_calc_timeout", UNITS, extra_src=EXTRA, unwind=3,
                      defines=["AT_F=%d" % af, "RF_F=%d" % rf], timeout=900, group="L1", tier="quick" if (af, rf) in fr_q else "thorough",
                      desc="coap_calc_timeout in [ACK_TIMEOUT, ACK_TIMEOUT*ACK_RANDOM_FACTOR] for all r, integer parts 1..60 / 1..4, fractions .%03d/.%03d" % (af, rf),
                      bounds={"r": "0..255", "ack_timeout": "1..60 + .%03d" % af, "ack_random_factor": "1..4 + .%03d" % rf}))
    for qn in (0, 1, 2, 3):
        js.append(Job("S4-insert-pop@q%d" % qn, "C06/c06.c", "c06_s4_insert_pop", UNITS, extra_src=EXTRA, defines=["QN=%d" % qn], unwind=18, tier="quick" if qn <= 2 else "thorough", timeout=1800,
                      group="S4", desc="insert then pop on a queue of %d nodes: deadlines preserved, ordered" % qn, bounds={"queue": qn}))
        if qn:
            js.append(Job("S4-remove@q%d" % qn, "C06/c06.c", "c06_s4_remove", UNITS, extra_src=EXTRA, defines=["QN=%d" % qn], unwind=18, tier="quick" if qn <= 2 else "thorough", timeout=1800,
                          group="S4", desc="coap_remove_from_queue on %d nodes: first (session, mid) match only" % qn, bounds={"queue": qn}))
        js.append(Job("S3-timer-scan@q%d" % qn, "C06/c06.c", "c06_s3_timer_scan", UNITS, extra_src=EXTRA,
                      defines=["QN=%d" % qn, "STUB_RETRANSMIT"], remove_bodies=["coap_retransmit"], unwind=18, group="S3", flags=FS, tier="quick" if qn <= 2 else "thorough", timeout=1800,
                      desc="timer scan over %d queued nodes: due nodes retransmitted once in order, wait <= earliest deadline" % qn,
                      bounds={"queue": qn}))
    for other in (0, 1):
        for gu in (0, 1):
            js.append(Job("S2-retransmit@other%d-%s" % (other, "giveup" if gu else "resend"), "C06/c06.c", "c06_s2_retransmit", UNITS,
                          extra_src=EXTRA, defines=["OTHER=%d" % other] + (["WIT_GIVEUP"] if gu else []), unwind=18, group="S2", flags=FS,
                          timeout=900, desc="coap_retransmit one step (%d other queued message)" % other, bounds={"other_nodes": other}))
    # S3r (c06_s3_timer_fire_real: timer scan with the REAL coap_retransmit, step arbitrarily late) is not registered: no verdict in 900 s
    # a held Confirmable that is released is queued for retransmission (any message id, 0 included): C08's drain step
    from jobs.C07 import CUT_CLIENT as _CC, RB_CLIENT as _RC, UNITS as _NU
    js.append(Job("S7-released-held-is-queued", "C07/c07.c", "c08_s2_drain", _NU, extra_src=EXTRA, defines=["HELD=1"] + _CC, remove_bodies=_RC,
                  unwind=18, flags=FS, group="S7", timeout=1500, est_gb=3,
                  desc="coap_session_connected releasing one held message: a released Confirmable is queued for retransmission with its own timeout (every message id)",
                  bounds={"held": 1, "mid": "0..65535"}))
    # single outcome on session failure; the in-flight case is known finding F-C06x (reported by this companion job)
    from jobs.C07 import CUT_CLIENT, RB_CLIENT
    js.append(Job("S6-disconnect-inflight", "C07/c07.c", "c08_s4_session_failure", UNITS + ["coap_uri.c", "coap_address.c"], extra_src=EXTRA,
                  defines=["NHELD=0", "INFLIGHT=1", "FPROTO=1"] + CUT_CLIENT, remove_bodies=RB_CLIENT, unwind=18, flags=FS, group="S6-disconnect",
                  kf="F-C06x", timeout=900, est_gb=3,
                  desc="session failure with one Confirmable in flight: exactly one NACK (known finding F-C06x: two)", bounds={"in_flight": 1}))
    return js
