from verif.core import Job

UNITS = ["oscore/oscore.c", "coap_encode.c"]
EXTRA = ["common/env.c"]

META = {
    "bounds": "S1: one oscore_validate_sender_seq step (+ oscore_roll_back_seq) from every window state satisfying the "
              "representation invariant (last_seq, 64-bit window, initial flag, replay_window_size 1..63), every incoming "
              "partial IV < 2^40, universally quantified witness number; B1: every history of k<=3 (quick) / 4 (thorough) "
              "deliveries, each an arbitrary sequence number and an arbitrary authentication verdict, from the state "
              "oscore_add_recipient() creates.",
    "outside": "the gating of the window calls inside coap_oscore_decrypt_pdu (only the window API, driven in the call "
               "sites' order validate -> [auth fails -> roll back], is encoded); sender sequence numbers/ssn_freq persistence; "
               "histories longer than k other than through S1's step invariant",
    "assumptions": ["abstraction function seen(state, n) written from the comment in oscore.c ('B0 biggest seq seen, B1 seq-1 seen ...') and RFC 8613 7.4",
                    "log stub; no allocation involved"],
}


def jobs():
    js = [Job("S1-window-step", "C15/c15.c", "c15_s1_window_step", UNITS, extra_src=EXTRA, unwind=10,
              desc="one validate(+roll back) step from an arbitrary armed/unarmed window state",
              bounds={"seq": "< 2^40", "window_size": "1..63"})]
    for k in (2, 3, 4):
        js.append(Job("B1-history@k%d" % k, "C15/c15.c", "c15_b1_history", UNITS, extra_src=EXTRA, unwind=10,
                      defines=["KDEL=%d" % k], tier="quick" if k <= 3 else "thorough", group="B1-history", timeout=1200,
                      desc="all histories of %d deliveries (fresh/replay/forgery, any gap)" % k, bounds={"k": k}))
    return js
