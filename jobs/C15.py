from verif.core import Job

UNITS = ["oscore/oscore.c", "coap_encode.c"]
EXTRA = ["common/env.c"]

META = {
    "bounds": "S1: one oscore_validate_sender_seq step (+ oscore_roll_back_seq) from every window state satisfying the "
              "representation invariant (last_seq, 64-bit window, initial flag, replay_window_size 1..63), every incoming "
              "partial IV < 2^40, universally quantified witness number; B1: every history of k<=3 (quick) / 4 (thorough) "
              "deliveries, each an arbitrary sequence number and an arbitrary authentication verdict, from the state "
              "oscore_add_recipient() creates.",
    "outside": "the gating of the window calls inside coap_oscore_decrypt_pdu (only the window API, driven in the call "
               "sites' order validate -> [auth fails -> roll back], is encoded); sender sequence numbers/ssn_freq persistence; "
               "histories longer than k other than through S1's step invariant",
    "assumptions": ["abstraction function seen(state, n) written from the comment in oscore.c ('B0 biggest seq seen, B1 seq-1 seen ...') and RFC 8613 7.4",
                    "log stub; no allocation involved"],
}


def jobs():
    js = [Job("S1-window-step", "C15/c15.c", "c15_s1_window_step", UNITS, extra_src=EXTRA, unwind=10,
              desc="one validate(+roll back) step from an arbitrary armed/unarmed window state",
              bounds={"seq": "< 2^40", "window_size": "1..63"})]
    for k in (2, 3, 4):
        js.append(Job("B1-history@k%d" % k, "C15/c15.c", "c15_b1_history", UNITS, extra_src=EXTRA, unwind=10,
                      defines=["KDEL=%d" % k], tier="quick" if k <= 3 else "thorough", group="B1-history", timeout=1200,
                      desc="all histories of %d deliveries (fresh/replay/forgery, any gap)" % k, bounds={"k": k}))
    # sender side: inductive invariant "stable storage is ahead of every partial IV used"
    su = ["coap_oscore.c", "oscore/oscore.c", "oscore/oscore_cose.c", "oscore/oscore_context.c", "coap_pdu.c", "coap_option.c", "coap_encode.c", "coap_str.c"]
    for f in (0, 1, 2, 3, 7, 10, 16, 100, 1000):
        js.append(Job("S2-derive@freq%d" % f, "C15/c15s.c", "c15_s2_derive", su, extra_src=EXTRA, defines=["FREQ=%d" % f], unwind=4, unwindset={"cose_get_alg_name.0": 40, "cose_get_hkdf_alg_name.0": 40},
                      remove_bodies=["__CPROVER_file_local_oscore_context_c_oscore_log_context"], group="S2-derive", timeout=900,
                      desc="oscore_derive_ctx with ssn_freq %d and every start_seq_num: next_seq <= start" % f, bounds={"ssn_freq": f, "start_seq_num": "< 2^40"}))
    js.append(Job("S2-step", "C15/c15s.c", "c15_s2_step", su, extra_src=EXTRA, unwind=16, defines=["ENV_MEMCPY_BYTELOOP"], unwindset={"memcpy.0": 20},
                  remove_bodies=["__CPROVER_file_local_oscore_context_c_oscore_log_context", "oscore_encode_option_value"],
                  timeout=900, est_gb=3, desc="one protected request from every sender state satisfying the invariant, cut after the sequence-number bookkeeping",
                  bounds={"seq": "< 2^40", "ssn_freq": "1..2^20"}))
    return js
