from verif.core import Job

UNITS = ["oscore/oscore.c", "oscore/oscore_cbor.c", "oscore/oscore_cose.c", "coap_encode.c", "coap_str.c"]
EXTRA = ["common/env.c"]

META = {
    "level_text": "PARTIAL. Bounded symbolic model checking (CBMC) of the parts of OSCORE that libcoap itself computes, against RFC 8613 / RFC 8949 "
                  "reference encoders written in the harness: CBOR item heads, OSCORE option compression/decompression, AEAD nonce. The "
                  "end-to-end sentence of the property (ciphertext equals an independent implementation's, tampering is rejected) is NOT "
                  "claimed: AES-CCM/HKDF run inside GnuTLS (binary, cannot be encoded) and the protect/unprotect functions "
                  "(coap_oscore_new_pdu_encrypted_lkd / coap_oscore_decrypt_pdu) are not encoded in this version.",
    "bounds": "L1: CBOR head for unsigned / negative / tag / array / map with every 64-bit argument; L2: oscore_decode_option_value on every "
              "byte string of length 0..5 (quick) / 6-7 (thorough), exact-size objects, vs an RFC 8613 6.1 reference decoder; "
              "oscore_encode_option_value for Partial IV length 0..5, kid absent/0..3 bytes, kid context 0..2 bytes (lengths "
              "enumerated, bytes symbolic) vs reference compression + decode round trip; L3: oscore_generate_nonce for id length 0..7, "
              "Partial IV length 1..5, arbitrary 13-byte common IV vs the RFC 8613 5.2 construction; L4: oscore_find_context over two contexts for "
              "the listed (kid, ID Context, kid context) length triples with all identifier bytes symbolic.",
    "outside": "AES-CCM, HKDF, HMAC (GnuTLS); AAD/external_aad construction; inner/outer option split; coap_oscore_new_pdu_encrypted_lkd and "
               "coap_oscore_decrypt_pdu as wholes (hence: equality with an independent implementation's ciphertext, rejection of tampering, "
               "handler isolation are not decided); Appendix B.2 CBOR-wrapped kid context; group OSCORE",
    "assumptions": ["reference encoders/decoders in harness/C14/c14.c written from RFC 8613 5.2, 6.1 and RFC 8949 3", "buffers passed to the CBOR encoders are large enough (their bounds are guarded only by compiled-out asserts: caller's precondition)"],
}


def jobs():
    js = []
    for k, kn in ((0, "unsigned"), (1, "negative"), (2, "tag"), (3, "array"), (4, "map")):
        js.append(Job("L1-cbor-head@%s" % kn, "C14/c14.c", "c14_l1_cbor_head", UNITS, extra_src=EXTRA, defines=["KIND=%d" % k], unwind=18, group="L1-cbor-head",
                      desc="CBOR %s head == RFC 8949 shortest form for every 64-bit argument" % kn, bounds={"argument": "0..2^64-1"}))
    for n in range(0, 8):
        js.append(Job("L2-decode-option@n%d" % n, "C14/c14.c", "c14_l2_decode_option", UNITS, extra_src=EXTRA, defines=["N=%d" % n], unwind=12,
                      tier="quick" if n <= 5 else "thorough", group="L2-decode-option", termination=True,
                      desc="oscore_decode_option_value == RFC 8613 6.1 reference on every %d-byte value (exact-size)" % n, bounds={"n": n}))
    for pivl in range(0, 6):
        for kidl in (-1, 0, 1, 3):
            for ctxl in (0, 2):
                quick = (pivl in (0, 1, 5) and kidl in (-1, 1) and ctxl == 0) or (pivl == 2 and kidl == 3 and ctxl == 2)
                js.append(Job("L2-encode-option@piv%d-kid%d-ctx%d" % (pivl, kidl, ctxl), "C14/c14.c", "c14_l2_encode_option", UNITS, extra_src=EXTRA,
                              defines=["PIVL=%d" % pivl, "KIDL=%d" % kidl, "CTXL=%d" % ctxl], unwind=34, tier="quick" if quick else "thorough",
                              group="L2-encode-option", desc="oscore_encode_option_value vs RFC 8613 6.1, PIV %d, kid %d, kid context %d bytes" % (pivl, kidl, ctxl),
                              bounds={"piv": pivl, "kid": kidl, "kid_context": ctxl}))
    for idl in range(0, 8):
        for pivl in range(1, 6):
            quick = (idl in (0, 1, 7) and pivl in (1, 5)) or (idl == 3 and pivl == 2)
            js.append(Job("L3-nonce@id%d-piv%d" % (idl, pivl), "C14/c14.c", "c14_l3_nonce", UNITS, extra_src=EXTRA, defines=["IDL=%d" % idl, "PIVL=%d" % pivl],
                          unwind=18, tier="quick" if quick else "thorough", group="L3-nonce",
                          desc="oscore_generate_nonce == RFC 8613 5.2 for id %d, PIV %d bytes" % (idl, pivl), bounds={"id": idl, "piv": pivl}))
    # the Partial IV a request is protected with is the full sender sequence number (every value < 2^40): same harness as C15-S2-step
    import copy
    from jobs import C15
    for j in C15.jobs():
        if j.name == "S2-step":
            j2 = copy.deepcopy(j)
            j2.name = "S3-request-partial-iv"
            j2.group = None
            j2.desc = "coap_oscore_new_pdu_encrypted_lkd (cut after the nonce/sequence bookkeeping): Partial IV == sender sequence number for every value < 2^40"
            js.append(j2)
    for kl, il, rl in ((1, 3, 3), (2, 4, 4), (0, 2, 2), (1, 3, 2), (1, -1, 0), (1, -1, 2), (1, 2, -1), (3, 8, 8)):
        js.append(Job("L4-find-context@kid%d-idctx%s-rx%s" % (kl, il if il >= 0 else "none", rl if rl >= 0 else "none"), "C14/c14f.c", "c14_l4_find_context",
                      ["oscore/oscore_context.c"], extra_src=EXTRA, defines=["KIDLEN=%d" % kl, "IDCLEN=%d" % il, "RXCLEN=%d" % rl, "ENV_LOG_QUIET"], unwind=12,
                      group="L4-find-context", witness=(il == rl or (il < 0 and rl <= 0) or rl < 0),
                      desc="oscore_find_context: context selected iff kid and the whole kid context match (two contexts, symbolic bytes)",
                      bounds={"kid_len": kl, "id_context_len": il, "kid_context_len": rl, "contexts": 2}))
    # B2-decrypt-request (harness/C14/c14d.c: server half of coap_oscore_decrypt_pdu with an AEAD model) is NOT registered: three attempts
    # (recursion bounds for coap_add_option_internal/coap_insert_option, concrete plaintext layout) gave no verdict within 700-1500 s - DESIGN 9.5
    return js
